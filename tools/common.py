"""Shared plumbing for the rosmar verification checks: building the harness, running TLC,
parsing FAIL tuples, known findings, evidence files, result caching."""
import hashlib, json, os, re, shutil, subprocess, sys, time

VERIF = os.path.dirname(os.path.dirname(os.path.abspath(__file__)))
REPO = os.environ.get("VERIF_REPO", "/repo")
SPEC = os.path.join(VERIF, "spec")
CACHE = os.path.join(VERIF, ".cache")
GOENV = dict(os.environ, GOFLAGS="-mod=mod", GOPROXY="off", GOSUMDB="off", GOTOOLCHAIN="local")


class Inconclusive(Exception):
    pass


def sh(cmd, timeout=None, env=None, cwd=None, check=False):
    p = subprocess.run(cmd, shell=isinstance(cmd, str), stdout=subprocess.PIPE, stderr=subprocess.STDOUT,
                       timeout=timeout, env=env, cwd=cwd)
    out = p.stdout.decode("utf-8", "replace")
    if check and p.returncode != 0:
        raise Inconclusive("command failed (%d): %s\n%s" % (p.returncode, cmd, out[-3000:]))
    return p.returncode, out


def tree_hash(root, exts=None, skip=(".git",)):
    h = hashlib.sha256()
    for d, dirs, files in os.walk(root):
        dirs[:] = sorted(x for x in dirs if x not in skip)
        for f in sorted(files):
            if exts and not f.endswith(exts):
                continue
            p = os.path.join(d, f)
            h.update(os.path.relpath(p, root).encode())
            try:
                with open(p, "rb") as fh:
                    h.update(fh.read())
            except OSError:
                pass
    return h.hexdigest()[:16]


def repo_hash():
    return tree_hash(REPO, exts=(".go", ".sql", ".mod", ".sum"))


def machinery_hash():
    h = hashlib.sha256()
    for sub in ("spec", "harness", "tools"):
        h.update(tree_hash(os.path.join(VERIF, sub)).encode())
    kf = os.path.join(VERIF, "known_findings.json")
    if os.path.exists(kf):
        h.update(open(kf, "rb").read())
    return h.hexdigest()[:16]


def build_harness():
    """Build the Go harness against /repo's current working tree with the verif tag."""
    bindir = os.path.join(CACHE, "bin")
    os.makedirs(bindir, exist_ok=True)
    out = os.path.join(bindir, "vh")
    hdir = os.path.join(VERIF, "harness")
    gosum = os.path.join(hdir, "go.sum")
    if not os.path.exists(gosum):
        shutil.copy(os.path.join(REPO, "go.sum"), gosum)
    cover = ["-cover", "-coverpkg=github.com/couchbaselabs/rosmar,verifharness"] if os.environ.get("VERIF_COVER") else []   # tools/covrun.sh
    rc, txt = sh(["go", "build", "-tags", "verif"] + cover + ["-o", out, "."], env=GOENV, cwd=hdir, timeout=900)
    if rc != 0:
        raise Inconclusive("harness/repo build failed:\n" + txt[-3000:])
    return out


def scratch_dir(name):
    d = os.path.join(CACHE, "run", name)
    shutil.rmtree(d, ignore_errors=True)
    os.makedirs(d, exist_ok=True)
    return d


TLC_STATS = re.compile(r"(\d+) states generated, (\d+) distinct states found")


def run_tlc(spec, cfg, meta, extra=(), env=None, timeout=1800, workers=1, java_opts=None):
    """Run TLC; returns (rc, output text)."""
    shutil.rmtree(meta, ignore_errors=True)
    os.makedirs(meta, exist_ok=True)
    e = dict(os.environ)
    if env:
        e.update(env)
    if java_opts:
        e["JAVA_TOOL_OPTIONS"] = java_opts
    cmd = ["tlc", "-workers", str(workers), "-metadir", meta, "-noGenerateSpecTE", "-config", cfg] + list(extra) + [spec]
    try:
        rc, out = sh(cmd, timeout=timeout, env=e, cwd=SPEC)
    except subprocess.TimeoutExpired:
        raise Inconclusive("TLC timed out after %ss on %s" % (timeout, spec))
    with open(os.path.join(meta, "out.txt"), "w") as fh:
        fh.write(out)
    return rc, out


def tlc_stats(out):
    m = None
    for m in TLC_STATS.finditer(out):
        pass
    if m:
        return int(m.group(1)), int(m.group(2))
    m = re.search(r"The number of states generated: (\d+)", out)
    if m:
        return int(m.group(1)), int(m.group(1))
    return 0, 0


def tlc_errors(out):
    errs = [l for l in out.splitlines() if l.startswith("Error:") or "Invariant" in l and "violated" in l
            or "is violated" in l or "Parsing or semantic analysis failed" in l]
    return errs


# ---- TLA+ value parsing (for FAIL tuples printed by the trace specifications) -----------------
def parse_tla(s):
    """Parse a TLA+ value as printed by TLC (tuples, sets, records, functions, strings, ints, booleans)."""
    pos = [0]

    def ws():
        while pos[0] < len(s) and s[pos[0]] in " \n\t":
            pos[0] += 1

    def val():
        ws()
        if s.startswith("<<", pos[0]):
            pos[0] += 2
            items = []
            ws()
            while not s.startswith(">>", pos[0]):
                items.append(val())
                ws()
                if s[pos[0]] == ",":
                    pos[0] += 1
                ws()
            pos[0] += 2
            return items
        if s[pos[0]] == "{":
            pos[0] += 1
            items = []
            ws()
            while s[pos[0]] != "}":
                items.append(val())
                ws()
                if s[pos[0]] == ",":
                    pos[0] += 1
                ws()
            pos[0] += 1
            return {"$set": items}
        if s[pos[0]] == "[":
            pos[0] += 1
            rec = {}
            ws()
            while s[pos[0]] != "]":
                m = re.compile(r"[A-Za-z0-9_.$]+").match(s, pos[0])
                name = m.group(0)
                pos[0] = m.end()
                ws()
                assert s.startswith("|->", pos[0]), s[pos[0]:pos[0] + 20]
                pos[0] += 3
                rec[name] = val()
                ws()
                if s[pos[0]] == ",":
                    pos[0] += 1
                ws()
            pos[0] += 1
            return rec
        if s[pos[0]] == "(":
            # function literal (a :> 1 @@ b :> 2)
            pos[0] += 1
            rec = {}
            ws()
            while s[pos[0]] != ")":
                k = val()
                ws()
                assert s.startswith(":>", pos[0])
                pos[0] += 2
                rec[str(k)] = val()
                ws()
                if s.startswith("@@", pos[0]):
                    pos[0] += 2
                ws()
            pos[0] += 1
            return rec
        if s[pos[0]] == '"':
            j = pos[0] + 1
            out = []
            while s[j] != '"':
                if s[j] == "\\":
                    j += 1
                out.append(s[j])
                j += 1
            pos[0] = j + 1
            return "".join(out)
        m = re.compile(r"-?\d+").match(s, pos[0])
        if m:
            pos[0] = m.end()
            return int(m.group(0))
        m = re.compile(r"TRUE|FALSE").match(s, pos[0])
        if m:
            pos[0] = m.end()
            return m.group(0) == "TRUE"
        raise ValueError("cannot parse TLA value at: " + s[pos[0]:pos[0] + 40])

    return val()


def fail_tuples(out):
    """All <<"FAIL", ...>> tuples TLC printed (TLC may wrap long values over several lines)."""
    res = []
    for m in re.finditer(r'^<<\s*"FAIL"', out, re.M):
        try:
            res.append(parse_tla(out[m.start():]))
        except Exception as ex:  # keep the raw text rather than losing a failure
            res.append(["FAIL", {"$set": ["?"]}, -1, -1, "?", "?", ["unparsed"], out[m.start():m.start() + 300], str(ex)])
    return res


# ---- known findings ------------------------------------------------------------------------
def load_known():
    p = os.path.join(VERIF, "known_findings.json")
    if not os.path.exists(p):
        return []
    return json.load(open(p)).get("findings", [])


def match_known(known, prop, sig):
    """sig is a dict of string features; a finding matches if all its 'match' features are equal
    (a list value means one-of)."""
    for k in known:
        if k.get("status") != "open" or prop not in k.get("properties", []):
            continue
        ok = True
        for f, v in k.get("match", {}).items():
            sv = sig.get(f)
            if isinstance(v, list):
                if sv not in v:
                    ok = False
            elif sv != v:
                ok = False
        if ok:
            return k
    return None


def write_evidence(prop, tier, seed, level, coverage, wall, violations, assumptions):
    os.makedirs(os.path.join(VERIF, "evidence"), exist_ok=True)
    ev = {"property_id": prop, "tier": tier, "seed": seed, "level": level, "coverage": coverage,
          "assumptions": assumptions, "wall_s": round(wall, 2), "violations": violations}
    with open(os.path.join(VERIF, "evidence", prop + ".json"), "w") as fh:
        json.dump(ev, fh, indent=1, sort_keys=True, default=str)
