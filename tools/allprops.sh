#!/bin/bash
# allprops.sh [tier]: run every property's check on the current tree and print one line per property (the families' results
# are cached, so this costs one run of each family); exit 1 if any check did not exit 0.
cd "$(dirname "$0")/.."
tier=${1:-quick}; bad=0
for i in $(seq -w 1 20); do
  p=C$i
  out=$(./check $p --tier $tier 2>&1); rc=$?
  echo "$p exit=$rc $(echo "$out" | grep -c '^VIOLATION') violations $(echo "$out" | grep -m1 '^INCONCLUSIVE' | cut -c1-160)"
  [ $rc -ne 0 ] && bad=1
done
exit $bad
