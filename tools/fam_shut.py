"""Shutdown / concurrent-open family (C20, C13).
   Leg A  TLC on RosmarShutdown (lock-level model): deadlock freedom, NoPanic, NoLockLeft for every scenario of the intended design;
          witness: the pre-repair lock order (StopFirst=FALSE) deadlocks
   Leg B  every maximal behaviour's sequence of gate crossings (printed by TLC) is replayed on real goroutines through the gate
          scheduler, one OS process per schedule (vh shut): expiry callback vs CloseAndDelete / last Close / writer, writer vs
          close / delete, two concurrent opens of an unregistered on-disk bucket, open during the last close
   Leg C  ShutTrace validates the recorded outcomes (a crashed process is recorded as such)"""
import concurrent.futures, json, os, random, re, time
from common import *

PROPS = ["C20", "C13"]
SCENARIOS = [["timer", "cad"], ["timer", "closelast"], ["timer", "writer"], ["writer", "cad"], ["writer", "closelast"],
             ["open1", "open2"], ["open1", "closelast"], ["viewbg", "cad"], ["viewbg", "closelast"], ["ddoc", "cad"], ["ddoc", "closelast"]]


def cfg_text(procs, stopfirst, gen):
    return ("SPECIFICATION Spec\nCONSTANTS\n  Procs = {%s}\n  StopFirst = %s\n%sINVARIANTS\n  NoPanic\n  NoLockLeft\n%s" %
            (", ".join('"%s"' % p for p in procs), "TRUE" if stopfirst else "FALSE", "" if gen else "VIEW View\n",
             "  PrintSchedules\n" if gen else ""))


def run(tier, seed, vh, only_paths=None, mode=None):
    t0 = time.time()
    run = scratch_dir("shut-%s-%d" % (tier, seed))
    res = {"family": "shut", "tier": tier, "seed": seed}
    rnd = random.Random(seed)
    cases = []
    if only_paths is None:
        states = trans = 0
        for sc in SCENARIOS + [["timer", "cad", "writer"]]:
            cfg = os.path.join(run, "mc_%s.cfg" % "_".join(sc))
            open(cfg, "w").write(cfg_text(sc, True, False))
            rc, out = run_tlc("RosmarShutdown.tla", cfg, os.path.join(run, "meta_mc"), workers=4, timeout=600)
            if rc != 0 or "No error has been found" not in out:
                raise Inconclusive("Leg A: RosmarShutdown %s: %s" % (sc, tlc_errors(out)[:3]))
            g, d = tlc_stats(out)
            states += d
            trans += g
        cfg = os.path.join(run, "mc_witness.cfg")
        open(cfg, "w").write(cfg_text(["timer", "cad"], False, False))
        rc, out = run_tlc("RosmarShutdown.tla", cfg, os.path.join(run, "meta_mc"), workers=4, timeout=600)
        if "Deadlock reached" not in out:
            raise Inconclusive("vacuity control: the pre-repair lock order no longer deadlocks in the model")
        res["mc"] = {"cfg": "RosmarShutdown x %d scenarios" % (len(SCENARIOS) + 1), "states": states, "transitions": trans,
                     "witness_StopFirst_FALSE_deadlocks": True}
        per = 12 if tier == "quick" else 200
        for sc in SCENARIOS:
            cfg = os.path.join(run, "gen_%s.cfg" % "_".join(sc))
            # schedules come from the pre-repair step structure as well, so that a regression can be driven into its bad interleaving
            scheds = set()
            for sf in (True, False):
                open(cfg, "w").write(cfg_text(sc, sf, True).replace("INVARIANTS\n  NoPanic\n  NoLockLeft\n", "INVARIANTS\n") + "CHECK_DEADLOCK FALSE\n")
                rc, out = run_tlc("RosmarShutdown.tla", cfg, os.path.join(run, "meta_gen"), workers=4, timeout=600)
                for line in out.splitlines():
                    if line.startswith('"SCHEDULE '):
                        scheds.add(json.dumps(json.loads(json.loads(line)[len("SCHEDULE "):])["sched"]))
            scheds = sorted(scheds)
            if len(scheds) > per:
                scheds = rnd.sample(scheds, per)
            for s in scheds:
                cases.append({"procs": sc, "sched": [("timer" if x == "timer" else x) for x in json.loads(s)]})
        if not cases:
            raise Inconclusive("no shutdown schedules generated")
    else:
        cases = only_paths
        res["mc"] = {"states": 0, "transitions": 0}
    os.makedirs(os.path.join(run, "b"), exist_ok=True)

    def one(i):
        rc, out = sh([vh, "shut", "-case", json.dumps(cases[i]), "-tr", str(i + 1), "-scratch", os.path.join(run, "b")], timeout=60)
        m = re.search(r"^SHUT (\{.*\})$", out, re.M)
        if m:
            return json.loads(m.group(1))
        first = [l for l in out.splitlines() if l.startswith("panic:") or l.startswith("fatal error") or l.startswith("ERROR")]
        return {"k": "shut", "tr": i + 1, "scen": "+".join(sorted(cases[i]["procs"])), "outcome": "crash" if not any(l.startswith("ERROR") for l in first) else "drivererror",
                "stuck": [], "res": {"process": (first[0] if first else "exit %d" % rc)[:120]}, "other": "-", "names": "-", "h1": "-", "h2": "-", "count": 0, "feeds": 0, "wgone": "-"}
    with concurrent.futures.ThreadPoolExecutor(max_workers=12) as ex:
        lines = list(ex.map(one, range(len(cases))))
    derr = [l for l in lines if l["outcome"] == "drivererror"]
    if len(derr) > len(lines) // 5:
        raise Inconclusive("shutdown driver errors: %s" % [d["res"] for d in derr[:3]])
    lines = [l for l in lines if l["outcome"] != "drivererror"]
    trace = os.path.join(run, "trace.ndjson")
    with open(trace, "w") as fh:
        for l in lines:
            fh.write(json.dumps(l) + "\n")
    rc, out = run_tlc("ShutTrace.tla", os.path.join(SPEC, "ShutTrace.cfg"), os.path.join(run, "meta_trace"), env={"VERIF_TRACE": trace}, timeout=900)
    if "No error has been found" not in out:
        raise Inconclusive("ShutTrace validation did not complete:\n" + "\n".join(l[:300] for l in out.splitlines() if l.startswith("Error"))[:1500])
    fails = []
    for t in fail_tuples(out):
        tr = t[2]
        fails.append({"props": t[1]["$set"], "trace": tr, "step": 0, "mode": "shut", "op": t[5], "what": t[6],
                      "sig": {"op": t[5], "kind": str(t[6][0])}, "expected": t[7], "observed": t[8], "ops": cases[tr - 1] if 0 < tr <= len(cases) else {}})
    res.update(fails=fails, paths=len(cases), traces=len(lines), lines=len(lines), steps=len(lines),
               distinct_cases=len({json.dumps(c, sort_keys=True) for c in cases}), samples=cases[:3], wall_s=round(time.time() - t0, 1))
    return res
