"""HLC family (C04).
   Leg A  TLC model checking of RosmarHLC (StrictlyIncreasing, AboveBeforeRestart, PersistedCoversIssued);
          witness: without seeding on open, AboveBeforeRestart fails
   Leg B  TLC simulation of RosmarHLC -> scripts (clock readings that stand still / jump back, writes through rotating entry points on
          an in-memory and an on-disk bucket, restarts, re-opens) executed on the real code with an injected physical clock (vh hlc),
          followed by a burst of concurrent writers
   Leg C  TLC trace validation (HLCTrace) of every CAS handed out (returned, read back, on the feed)"""
import concurrent.futures, json, os, re, time
from common import *

PROPS = ["C04"]


def run(tier, seed, vh, only_paths=None, mode=None):
    t0 = time.time()
    run = scratch_dir("hlc-%s-%d" % (tier, seed))
    res = {"family": "hlc", "tier": tier, "seed": seed}
    if only_paths is None:
        rc, out = run_tlc("RosmarHLC.tla", os.path.join(SPEC, "MC_HLC.cfg" if tier == "quick" else "MC_HLC_thorough.cfg"),
                          os.path.join(run, "meta_mc"), workers=16, timeout=1800)
        if rc != 0 or "No error has been found" not in out:
            raise Inconclusive("Leg A: RosmarHLC did not check cleanly: %s" % tlc_errors(out)[:3])
        g, d = tlc_stats(out)
        # witness configurations (each switch off in turn) must break AboveBeforeRestart; the behaviours that do are
        # directed scripts for the real code (a change that re-introduces the fault is driven straight into it)
        witness_scripts = []
        for cfgname, what in (("MC_HLC_witness.cfg", "SeedOnOpen=FALSE"), ("MC_HLC_witness2.cfg", "MetaKeepsMark=FALSE"),
                              ("MC_HLC_witness3.cfg", "SeedFromBucketMark=FALSE")):
            rcw, outw = run_tlc("RosmarHLC.tla", os.path.join(SPEC, cfgname), os.path.join(run, "meta_" + cfgname), workers=8, timeout=900,
                                extra=["-continue"])
            ws = []
            for line in outw.splitlines():
                if line.startswith('"WITNESS ') and len(ws) < 400:
                    ws.append(json.loads(line)[len("WITNESS "):])
            if not ws:
                raise Inconclusive("vacuity control: %s no longer violates AboveBeforeRestart" % what)
            rndw = __import__("random").Random(seed)
            rndw.shuffle(ws)
            witness_scripts += [json.loads(x) for x in ws[: (12 if tier == "quick" else 60)]]
        # unbounded integers: Apalache discharges that HLCInductive!IndInv is an inductive invariant
        apa = {}
        for nm, args in (("base", ["--init=Init", "--inv=IndInv", "--length=0"]), ("step", ["--init=IndInit", "--inv=IndInv", "--length=1"])):
            rc3, out3 = sh(["apalache-mc", "check"] + args + ["--out-dir=" + os.path.join(run, "apalache_" + nm), "HLCInductive.tla"],
                           timeout=300, cwd=os.path.join(SPEC, "apalache"))
            apa[nm] = "EXITCODE: OK" in out3 and "NoError" in out3.replace("no error", "NoError")
            if not apa[nm]:
                raise Inconclusive("Apalache did not discharge the %s case of the HLC inductive invariant:\n%s" % (nm, out3[-800:]))
        res["mc"] = {"cfg": "MC_HLC", "states": d, "transitions": g, "witness_SeedOnOpen_FALSE_violates": True, "witness_MetaKeepsMark_FALSE_violates": True, "witness_SeedFromBucketMark_FALSE_violates": True,
                     "apalache_inductive_invariant": apa}
        n, procs = (40, 4) if tier == "quick" else (400, 8)
        scripts, seen = [], set()

        def one(j):
            return run_tlc("RosmarHLC.tla", os.path.join(SPEC, "Gen_HLC.cfg"), os.path.join(run, "meta_gen_%d" % j),
                           extra=["-simulate", "num=%d" % n, "-depth", "16", "-seed", str(seed * 1000 + j)], workers=1, timeout=600)
        with concurrent.futures.ThreadPoolExecutor(max_workers=procs) as ex:
            for rc, out in ex.map(one, range(procs)):
                for line in out.splitlines():
                    if line.startswith('"BEHAVIOUR '):
                        s = json.loads(line)[len("BEHAVIOUR "):]
                        if s not in seen:
                            seen.add(s)
                            scripts.append(json.loads(s))
        if not scripts:
            raise Inconclusive("TLC generated no HLC scripts")
        scripts += witness_scripts
    else:
        scripts = only_paths
        res["mc"] = {"states": 0, "transitions": 0}
    sfile = os.path.join(run, "scripts.json")
    json.dump(scripts, open(sfile, "w"))
    os.makedirs(os.path.join(run, "buckets"), exist_ok=True)
    # the clock is process-global: shards run in separate processes
    nsh = min(8, len(scripts))
    size = (len(scripts) + nsh - 1) // nsh

    def shard(k):
        lo, hi = k * size, min(len(scripts), (k + 1) * size)
        tf = os.path.join(run, "trace_%d.ndjson" % k)
        rc, out = sh([vh, "hlc", "-in", sfile, "-out", tf, "-scratch", os.path.join(run, "buckets"), "-from", str(lo), "-to", str(hi)], timeout=3600)
        return tf, out
    lines = 0
    trace = os.path.join(run, "trace.ndjson")
    with concurrent.futures.ThreadPoolExecutor(max_workers=nsh) as ex, open(trace, "w") as tw:
        for tf, out in ex.map(shard, range(nsh)):
            m = re.search(r"HLC scripts=(\d+) lines=(\d+) errors=(\d+)", out)
            if not m or int(m.group(3)) > 0:
                raise Inconclusive("HLC driver failed:\n" + out[-1500:])
            for line in open(tf):
                tw.write(line)
                lines += 1
    rc, out = run_tlc("HLCTrace.tla", os.path.join(SPEC, "HLCTrace.cfg"), os.path.join(run, "meta_trace"),
                      env={"VERIF_TRACE": trace}, timeout=1800, java_opts="-Xss512m")
    if "No error has been found" not in out:
        raise Inconclusive("HLCTrace validation did not complete:\n" + "\n".join(l[:300] for l in out.splitlines() if l.startswith("Error"))[:1500])
    g, d = tlc_stats(out)
    if d - 1 != lines:
        raise Inconclusive("HLCTrace consumed %d of %d lines" % (d - 1, lines))
    fails = []
    for t in fail_tuples(out):
        tr, i = t[2], t[3]
        ops = scripts[tr - 1] if 0 < tr <= len(scripts) else []
        fails.append({"props": t[1]["$set"], "trace": tr, "step": i, "mode": "hlc", "op": t[5], "what": t[6],
                      "sig": {"op": t[5], "kind": str(t[6][0]), "via": str(t[6][2]) if len(t[6]) > 2 else ""},
                      "expected": t[7], "observed": t[8], "ops": ops})
    res.update(fails=fails, paths=len(scripts), traces=len(scripts), lines=lines, steps=lines,
               distinct_cases=len({json.dumps(s, sort_keys=True) for s in scripts}), samples=scripts[:2],
               wall_s=round(time.time() - t0, 1))
    return res
