#!/usr/bin/env python3
"""Regenerates /verif/MANIFEST.json from the table below."""
import json, os, subprocess
VERIF = os.path.dirname(os.path.dirname(os.path.abspath(__file__)))
hooks = subprocess.run("git -C /repo log --format=%H --grep='verification hook' -i", shell=True, capture_output=True, text=True).stdout.split()

SEQ_NOTE = ("Trusted: SQLite, sg-bucket's xattr encoding, the Go runtime. Conformance is by execution: the guarantee covers the behaviours "
            "TLC generated (seeded simulation of GenSeq) on in-memory and on-disk buckets; the design-level guarantee is exhaustive only "
            "within MC_Seq's bounds.")
CLAIMS = {
 "C01": ("seq", "RosmarStore/RosmarSeq define what every entry point may leave behind; TLC checks 'error leaves everything unchanged' on the design, "
         "and SeqTrace validates, after every step of every TLC-generated behaviour executed on the real code, that all five read APIs report exactly the document the specification allows"),
 "C02": ("seq", "TLC action property C02_AppliedOnlyIfCurrent on the design; SeqTrace checks for every conditional entry point x prior state class x CAS class "
         "(0/current/stale/never) that the real call succeeds iff the specification's CAS rule allows it and otherwise changes nothing"),
 "C05": ("seq", "TLC properties C05_* on the design; SeqTrace compares every observer of a document (reads, GetWithXattrs, live opcode, backfill opcode, insert-style writes) against the specification's body/no-body state at every step"),
 "C06": ("seq", "TLC property C06_InsertIffNoBody on the design; SeqTrace validates every insert-style call from every reached prior state (absent, live, tombstones made through every delete path)"),
 "C07": ("seq", "TLC properties C07_* on the design; SeqTrace validates named-xattr-only changes, all-or-nothing combined writes and the decoded CAS/CRC32c macro expansions against the specification"),
 "C08": ("seq", "SeqTrace requires, per step, exactly the specification's event (key, opcode, body, xattrs, datatype, CAS, expiry, revision) on the target collection's running feed and none elsewhere; "
         "ordering under concurrency is decided by the concurrent family"),
 "C09": ("seq", "SeqTrace compares a Dump backfill taken after every step with EventOf(document) for every document of the specification's state, in CAS order between the markers"),
 "C11": ("seq", "TLC property C11_OtherCollectionsUnchanged on the design; SeqTrace checks that the projection of the same keys in the two other collections and their feeds never changes"),
 "C17": ("seq", "TLC property C17_RevIncrementsByOne on the design; SeqTrace compares $document.revid, the number inside $document, live RevNo and backfill RevNo with the specification's revision after every step"),
 "C04": ("hlc", "RosmarHLC (hybrid logical clock, non-monotonic physical clock, several buckets, persisted marks, restarts) is model-checked by TLC (StrictlyIncreasing, AboveBeforeRestart on the sequences of values handed out; witnesses: without re-seeding on open, or with a caller-chosen CAS lowering the persisted mark, the property fails; an inductive invariant is discharged by Apalache for unbounded integers); "
         "TLC-simulated scripts of clock readings (standing still, jumping back), writes through rotating entry points on an in-memory and an on-disk bucket, writes with caller-chosen CAS below/above the mark, restarts and re-opens run on the real code with an injected clock, followed by bursts of concurrent writers; "
         "HLCTrace validates every CAS handed out (returned, read back, on the feed) and the commit order of concurrent ones"),
 "C10": ("crash", "TLC-generated histories x every crash position (operation index x 14 hook sites around and inside the write transaction) are executed by a child process that SIGKILLs itself at the position; a different process re-opens the on-disk bucket and "
         "SeqTrace!Reopen requires the acknowledged state plus either nothing or one whole RosmarStore outcome of the in-flight call (body, xattrs, CAS, expiry, revision together), the high-water marks covering every document, and the same UUID, collections, design documents and a re-armed expiry timer; a pending expiration whose deadline passes while the bucket is closed must still fire after the re-open"),
 "C12": ("seq", "RosmarView (the incrementally maintained index: marks, process clock, caller-chosen CAS, purge, design-document replacement) is model-checked by TLC (UpToDateIsExact; three witnesses must violate it); SeqTrace computes, from the specification's current documents, the rows a non-stale view query must return (map function applied to every document with a body or xattrs, JSON collation order, "
         "key / range (inclusive and exclusive ends exactly on a key, both directions) / limit / descending / count-reduce variants) and compares them after every step of every TLC-generated behaviour with the incrementally maintained index - queried before and after writes to other collections, every step and every third step - and at the end of each behaviour with a freshly built one; behaviours of RosmarView itself (queries, non-stale and stale=ok, placed by the model; caller-chosen CAS around the marks; purges; design-document replacements) are replayed with the clock standing still and validated by ViewTrace"),
 "C19": ("seq", "SeqTrace compares, after every step, five SQL queries over $_keyspace (all rows with id/body/xattrs; filter on a body property; filter on an xattr property; documents without xattrs; a projection whose first column is NULL for some rows) with the specification's live documents of that collection, on in-memory (pre-recorded iterator) and on-disk (streaming iterator) buckets"),
 "C13": ("life", "RosmarLife (registry, handles, stores, collections, feeds) is model-checked by TLC (CountEqualsOpenHandles, DiskRegisteredIffOpen, OpenHandleHasStore, DiskDataSurvivesClose, OtherHandlesUnaffectedByClose); "
         "TLC-simulated action lists (open in every mode / close / close again / CloseAndDelete / write / drop over 4 handles, 2 names, 4 URLs (plain in-memory, in-memory with the path of another bucket's directory, two on-disk), 4 collections, starting from some 30 directed prefixes) are executed on the real code and LifeTrace validates, after every action, each call's result class, what every handle can read, the registry and the data on disk"),
 "C14": ("exp", "RosmarExpiry is model-checked by TLC (TimerCoversEarliest, ExpiredSoon; witness: without Touch arming the timer the invariant fails); TLC-simulated scripts that set, shorten, lengthen, preserve and clear deadlines 2-4 s ahead "
         "are executed on in-memory and on-disk buckets (incl. reopen, drop-and-re-create of the collection, buckets whose expiry machinery has already run); ExpTrace validates the expiry in force and the timer's state after every call and the real-time timeline (readable before T, tombstone and deletion event within 4 s after T)"),
 "C16": ("life", "RosmarLife's feed part is model-checked by TLC (RunningFeedHasOpenStore, DoneIffEnded, FeedsEndOnlyForAReason); the same executed action lists (live / dump / multi-collection / bucket-level feeds started through any handle, "
         "terminator closes, drops, closes, deletion, writes) are validated by LifeTrace: exactly one callback per write for every feed that should be running, none after the end, done channel closed iff ended, feed goroutine count; through handles of a bucket deleted elsewhere too. The expiry scripts (ExpTrace) additionally require that the feed watching a collection - "
         "also one dropped and re-created after an expiry run - is told of every document the expiry run removes"),
 "C20": ("life", "LifeTrace treats any panic, hang (4 s watchdog per call), process crash, leaked feed goroutine or unclosed done channel in the executed lifecycle behaviours as a violation; "
         "the concurrent families (gate scheduler) additionally replay close/delete against in-flight writers and feeds"),
 "C03": ("conc", "RosmarConc (clients, feed, runner at critical-section granularity) is model-checked by TLC for the intended design (NoLostUpdate, AtMostOneReplaces, UpdatesApplied); "
         "every maximal interleaving TLC finds for two clients x {Set, WriteCas, Update, Incr, Get, Remove; KV with options, sub-document, xattr and xattr-on-tombstone variants} is replayed on real goroutines through the gate scheduler and the recorded "
         "history is validated by SeqTrace in commit order (each result must be the sequential outcome at its linearisation point; Update-style callbacks must be stored on the version they were shown)"),
 "C15": ("conc", "RosmarConc with a checkpointed feed that is stopped and restarted: TLC checks FinalVersionDelivered and CheckpointNotAboveDelivered on the design; TLC's interleavings of writers, "
         "deliveries, stop and restart (preferring those where the stop discards the mutation right after the checkpoint; half of them with the physical clock standing still so that CAS values are consecutive) are replayed through the gate scheduler and SeqTrace's feeds line checks that the runs together deliver every final version and that the persisted checkpoint never exceeds what was delivered"),
 "C18": ("seq", "TLC property C18_OnlyAddressedProperty on the design; SeqTrace validates sub-document writes/reads on object bodies (present, absent, nested, through non-objects) against RosmarStore's sub-document operators"),
}
PENDING = {
}
try:
    from manifest_extra import CLAIMS as C2, PENDING_REMOVE, NOTES
    CLAIMS.update(C2)
    for p in PENDING_REMOVE:
        PENDING.pop(p, None)
except ImportError:
    NOTES = {}
checks = []
for pid, (fam, text) in sorted(CLAIMS.items()):
    PENDING.pop(pid, None)
    checks.append({
        "property_id": pid,
        "quick_cmd": "./check %s" % pid,
        "thorough_cmd": "./check %s --tier thorough" % pid,
        "evidence_file": "/verif/evidence/%s.json" % pid,
        "replay_cmd_template": "./check %s --replay {path}" % pid,
        "engine": "tlc-" + fam,
        "level_claimed": {"category": "fault_enumeration" if pid == "C10" else "model_checking", "text": text, "design_ref": "DESIGN.md section 6 (%s)" % pid},
        "level_note": NOTES.get(pid, SEQ_NOTE),
        "technique": "explicit TLA+ specification checked by TLC, bound to the code by TLC-generated behaviours replayed on the real code and TLC trace validation of the recorded executions",
    })
m = {
 "version": 1,
 "setup_cmd": "./setup.sh",
 "hooks": {"guard": "verif", "enable": "go build -tags verif (the harness module replaces github.com/couchbaselabs/rosmar with /repo)",
           "baseline_off_cmd": "cd /repo && GOFLAGS=-mod=mod GOPROXY=off GOSUMDB=off GOTOOLCHAIN=local go test -json -vet=off -count=1 -timeout 25m ./...",
           "source_commits": hooks, "add_only": True},
 "engines": [{"name": "tlc-seq", "path": "/verif/spec", "serves_properties": sorted(p for p, (f, _) in CLAIMS.items() if f == "seq"),
              "kind_free_text": "RosmarStore/RosmarSeq/GenSeq/SeqTrace TLA+ modules + Go harness (vh seq)"},
             {"name": "tlc-conc", "path": "/verif/spec", "serves_properties": ["C01", "C02", "C03", "C08", "C09", "C15", "C16", "C18"],
              "kind_free_text": "RosmarConc TLA+ module (schedules), gate scheduler + vh conc, SeqTrace feeds-line validation"},
             {"name": "tlc-life", "path": "/verif/spec", "serves_properties": ["C11", "C13", "C15", "C16", "C19", "C20"],
              "kind_free_text": "RosmarLifeOps/RosmarLife/LifeTrace TLA+ modules + vh life"},
             {"name": "tlc-view", "path": "/verif/spec", "serves_properties": ["C12"], "kind_free_text": "RosmarView/ViewTrace + vh view (clock standing still)"},
             {"name": "tlc-hlc", "path": "/verif/spec", "serves_properties": ["C04"], "kind_free_text": "RosmarHLC/HLCTrace + vh hlc (injected clock)"},
             {"name": "tlc-crash", "path": "/verif/spec", "serves_properties": ["C10"], "kind_free_text": "SeqTrace!Reopen + vh crashchild/crashcheck (SIGKILL at hook sites)"},
             {"name": "tlc-shut", "path": "/verif/spec", "serves_properties": ["C13", "C20"], "kind_free_text": "RosmarShutdown lock-level model, ShutTrace + vh shut (one process per schedule)"},
             {"name": "tlc-exp", "path": "/verif/spec", "serves_properties": ["C11", "C14", "C16"],
              "kind_free_text": "RosmarExpiryOps/RosmarExpiry/ExpTrace TLA+ modules + vh exp (real-time timeline)"}],
 "checks": checks,
 "notes": "All checks share family pipelines whose results are cached under /verif/.cache keyed by the hash of /repo's sources, the machinery, the seed and the tier.",
 "not_applicable": [{"property_id": p, "reason": r} for p, r in sorted(PENDING.items())],
}
json.dump(m, open(os.path.join(VERIF, "MANIFEST.json"), "w"), indent=1)
print("checks:", len(checks), "not_applicable:", len(PENDING))
