#!/usr/bin/env python3
import json, sys, glob, os, collections
files = sorted(glob.glob('/verif/.cache/results/*.json'), key=os.path.getmtime)
fam = sys.argv[1] if len(sys.argv) > 1 else None
f = [x for x in files if fam is None or os.path.basename(x).startswith(fam)][-1]
res = json.load(open(f))
print(os.path.basename(f), {k: v for k, v in res.items() if k not in ('fails', 'samples')})
groups = collections.OrderedDict()
for x in res['fails']:
    s = dict(x['sig']); s.pop('mode', None)
    key = json.dumps(s, sort_keys=True)
    g = groups.setdefault(key, {'n': 0, 'props': set(), 'ex': x})
    g['n'] += 1; g['props'] |= set(x['props'])
for key, g in sorted(groups.items(), key=lambda kv: -kv[1]['n']):
    x = g['ex']
    if x['ops'] and isinstance(x['ops'], list) and 'kind' in x['ops'][0]:
        print('%4d %s %s' % (g['n'], sorted(g['props']), key))
        if '-v' in sys.argv:
            print('       ', ' ; '.join('%s(%s)'%(a['kind'],','.join(str(v) for v in (a['h'],a['n'],a['u'],a['mode'],a['c'],a['f'],a['fk']) if v!='-')) for a in x['ops']))
            print('       exp:', json.dumps(x['expected'])[:300], ' got:', json.dumps(x['observed'])[:300])
        continue
    if isinstance(x['ops'], dict):
        print('%4d %s %s' % (g['n'], sorted(g['props']), key))
        if '-v' in sys.argv:
            print('       case:', x['ops']['name'], [[o['op'] for o in p['ops']] for p in x['ops']['procs']], x['ops']['schedule'])
            print('       exp:', json.dumps(x['expected'])[:400]); print('       got:', json.dumps(x['observed'])[:600])
        continue
    ops = ' ; '.join('%s(%s)' % (o['op'], ','.join(str(v) for k, v in o.items() if k in ('coll','key','exp','casc','body','opt','cb','path','val','db','pres','newc') and v not in ('', False, '-', 'zero', '0', 'hi') ) + (',' + '+'.join(n + '=' + a['t'] + ('c' if a['mc'] else '') + ('h' if a['mh'] else '') for n, a in o['sets'].items() if a['t'] != '-') if any(a['t'] != '-' for a in o['sets'].values()) else '') + (',del:' + '+'.join(o['dels']) if o['dels'] else '')) for o in x['ops'])
    print('%4d %s %s' % (g['n'], sorted(g['props']), key))
    if '-v' in sys.argv:
        print('       ops:', ops[:600])
        print('       exp:', json.dumps(x['expected'])[:500])
        print('       got:', json.dumps(x['observed'])[:500])
