"""Concurrent family (C03, C15; interleaving parts of C02, C08, C09, C18).
   Leg A  TLC exhaustive model checking of RosmarConc, intended design (MC_Conc_intended.cfg);
          witness run of the pre-repair step structure (MC_Conc_ascode.cfg) must violate FeedCasOrdered
   Leg B  every maximal behaviour of RosmarConc's scenario configurations (Gen_Conc_*.cfg) is printed by TLC
          as a schedule and replayed on real goroutines through the gate scheduler (vh conc)
   Leg C  the recorded histories are validated by SeqTrace (linearisation order = commit order, feeds line)"""
import json, os, random, re, time
from common import *
import fam_seq

PROPS = ["C02", "C03", "C08", "C09", "C15", "C18"]

KEY = "k1"
COLL = "c1"


def client_op(kind, variant, who):
    if variant == "kv2":
        # the second client works on another key of the collection: ordering across keys
        op = dict(client_op(kind, "kv", who))
        if who == "p2":
            op["key"] = "k2"
        return op
    if variant == "subabs" and kind == "set":
        # the document does not exist at first: a plain write creates it while sub-document writers are at work
        return {"op": "Add", "coll": COLL, "key": KEY, "body": "J1", "h": "h2" if who == "p2" else ""}
    if variant == "subdel" and kind in ("remove", "set"):
        # sub-document writers race with a deletion / a replacement of the whole document
        if kind == "remove":
            return {"op": "Delete", "coll": COLL, "key": KEY, "h": "h2" if who == "p2" else ""}
        return {"op": "Set", "coll": COLL, "key": KEY, "body": "J2", "h": "h2" if who == "p2" else ""}
    if variant == "kvtouch" and kind in ("set", "get"):
        # expiry changes (which keep the CAS but advance the revision) race with read-modify-write calls
        if kind == "set":
            return {"op": "Touch", "coll": COLL, "key": KEY, "exp": "E2", "h": "h2" if who == "p2" else ""}
        return {"op": "GetAndTouchRaw", "coll": COLL, "key": KEY, "exp": "E1"}
    if variant == "kvmeta" and kind == "set":
        # a replicated write: caller-chosen CAS a minute ahead of the clock; the regular writes that follow must be newer
        return {"op": "SetWithMeta", "coll": COLL, "key": KEY, "body": "J1", "json": True, "casc": "snap", "newc": "far"}
    if variant == "kvexp" and kind == "update":
        # the callback keeps the body and asks for a new expiry only
        return {"op": "Update", "coll": COLL, "key": KEY, "cb": "setexp"}
    if variant in ("subdoc", "subabs", "subdel"):
        path = {"p1": "a", "p2": "n", "p3": "v"}[who]
        if variant in ("subabs", "subdel") and kind == "incr":
            # (SubdocInsert refuses a missing document on the strength of its read: where that refusal is linearised is
            # not what the replayed history records, so the absent-document and the deleted-document variants use writes
            # that never refuse on the strength of an earlier read - the same holds for "path exists")
            kind = "update"
        if kind == "update":
            return {"op": "WriteSubDoc", "coll": COLL, "key": KEY, "path": path, "val": "s2", "casc": "zero",
                    "opt": "raced" if variant == "subdel" else ""}
        if kind == "casw":
            return {"op": "WriteSubDoc", "coll": COLL, "key": KEY, "path": path, "val": "s2", "casc": "snap"}
        if kind == "incr":
            return {"op": "SubdocInsert", "coll": COLL, "key": KEY, "path": path, "val": "s1", "casc": "zero"}
    if variant in ("xattr", "xtomb", "xres"):
        xn = {"p1": "_s", "p2": "u", "p3": "_t"}[who]
        sets = {xn: {"t": "x2", "mc": True, "mh": False}}
        if variant == "xres" and kind in ("set", "incr"):
            # another client re-creates the deleted document (plain write / counter) while the xattr updater resurrects it
            return client_op(kind, "kv", who)
        if kind == "update":
            return {"op": "WriteUpdateWithXattrs", "coll": COLL, "key": KEY, "cb": "inc", "sets": sets}
        if kind == "casw":
            return {"op": "UpdateXattrs", "coll": COLL, "key": KEY, "casc": "snap", "sets": sets}
        if kind == "set":
            return {"op": "SetXattrs", "coll": COLL, "key": KEY, "sets": {xn: {"t": "x1", "mc": False, "mh": False}}}
    if variant == "kvopt" and kind == "set":
        # blind writes with options: they must still produce a new version that conditional writers see
        return {"op": "Set", "coll": COLL, "key": KEY, "body": "N100", "pres": True, "exp": "E1", "h": "h2" if who == "p2" else ""}
    if variant == "kvadd" and kind == "set":
        # re-creation through the insert-only entry point (meaningful after a Remove)
        return {"op": "Add", "coll": COLL, "key": KEY, "body": "N100", "h": "h2" if who == "p2" else ""}
    if variant == "kvopt" and kind == "incr":
        return {"op": "Incr", "coll": COLL, "key": KEY, "amt": 2, "def": 0, "exp": "E1", "h": "h2" if who == "p2" else ""}
    return {
        "set": {"op": "Set", "coll": COLL, "key": KEY, "body": "N100", "h": "h2" if who == "p2" else ""},
        "casw": {"op": "WriteCas", "coll": COLL, "key": KEY, "casc": "snap", "body": "N1"},
        "update": {"op": "Update", "coll": COLL, "key": KEY, "cb": "inc"},
        "incr": {"op": "Incr", "coll": COLL, "key": KEY, "amt": 1, "def": 0, "h": "h2" if who == "p2" else ""},
        "get": {"op": "GetRaw", "coll": COLL, "key": KEY},
        "remove": {"op": "Remove", "coll": COLL, "key": KEY, "casc": "snap"},
    }[kind]


def to_case(name, scen, prog, sched, variant, mode="mem"):
    setup = [{"op": "Incr", "coll": COLL, "key": KEY, "amt": 1, "def": 0}]
    if variant in ("subdoc", "subdel"):
        setup = [{"op": "Set", "coll": COLL, "key": KEY, "body": "J1"}]
    if variant == "subabs":
        setup = []
    if variant == "kvadd":
        # the key starts as a tombstone: Add (and Incr) re-create it
        setup += [{"op": "Delete", "coll": COLL, "key": KEY}]
    if variant in ("xtomb", "xres"):
        # the xattr operations race on a tombstone that carries a system xattr
        setup += [{"op": "SetXattrs", "coll": COLL, "key": KEY, "sets": {"_s": {"t": "x1", "mc": False, "mh": False}}},
                  {"op": "Delete", "coll": COLL, "key": KEY}]
    procs = [{"name": p, "ops": [client_op(k, variant, p)]} for p, k in sorted(prog.items())]
    out = []
    if scen.get("Dump"):
        # a dump of two documents whose terminator is closed while the backfill is being delivered
        setup = [{"op": "Set", "coll": COLL, "key": "k1", "body": "J1"}, {"op": "Set", "coll": COLL, "key": "k2", "body": "J2"}]
        procs.append({"name": "f", "ops": [{"op": "StartFeed", "coll": COLL, "key": "fa", "f": {"backfill": "zero", "dump": True}},
                                            {"op": "StopFeed", "coll": COLL, "key": "fa"}]})
        nf = 0
        for s in sched:
            if s == "f":
                nf += 1
                if nf <= 3:
                    out.append("f")
                elif nf == 4:
                    out += ["f", "term:fa"]
            elif s == "run":
                out.append("run:fa")
        return {"name": name, "mode": mode, "setup": setup, "procs": procs, "schedule": out}
    if scen["HasFeed"]:
        fs = {"backfill": "zero" if scen["FeedBackfill"] else "none", "ckpt": "cp" if scen["Stops"] > 0 else ""}
        if scen["Stops"] > 0 and scen["FeedBackfill"]:
            fs["backfill"] = "resume"
        fops = [{"op": "StartFeed", "coll": COLL, "key": "fa", "f": fs}]
        for _ in range(scen["Stops"]):
            fops += [{"op": "StopFeed", "coll": COLL, "key": "fa"}, {"op": "StartFeed", "coll": COLL, "key": "fa", "f": fs}]
        procs.append({"name": "f", "ops": fops})
        if scen["FeedInit"] == "running":
            out += ["f", "f", "f"]
    fstep = 0
    after_stop = False
    for s in sched:
        if s == "f":
            fstep += 1
            # steps 1-3 start the feed, step 4 stops it, 5-7 restart it, ...
            if fstep % 4 == 0:
                out += ["f", "term:fa"]
                after_stop = True
            else:
                out.append("f")
        elif s == "run":
            if after_stop:
                out += ["run:fa", "run:fa", "run:fa"]
                after_stop = False
            else:
                out.append("run:fa")
        else:
            out.append(s)
    case = {"name": name, "mode": mode, "setup": setup, "procs": procs, "schedule": out}
    if scen.get("EnterGate"):
        # the code a client runs before it asks for the bucket mutex is a step of its own
        case["gates"] = ["op.start", "txn.enter", "post.before", "update.read.done", "subdoc.read.done", "wuwx.read.done",
                         "feed.backfill.done", "feed.registered", "feed.deliver", "feed.term", "feed.exit"]
    return case


SCENARIOS = {
    "race":   {"HasFeed": False, "FeedBackfill": False, "Stops": 0, "FeedInit": "start", "EnterGate": True},
    "race3":  {"HasFeed": False, "FeedBackfill": False, "Stops": 0, "FeedInit": "start"},
    "order":  {"HasFeed": True, "FeedBackfill": False, "Stops": 0, "FeedInit": "running"},
    "join":   {"HasFeed": True, "FeedBackfill": True, "Stops": 0, "FeedInit": "start"},
    "resume": {"HasFeed": True, "FeedBackfill": True, "Stops": 1, "FeedInit": "start"},
    "dumpstop": {"HasFeed": True, "FeedBackfill": True, "Stops": 1, "FeedInit": "start", "Dump": True},
}


def gen_schedules(run, scen):
    rc, out = run_tlc("RosmarConc.tla", os.path.join(SPEC, "Gen_Conc_%s.cfg" % scen), os.path.join(run, "meta_gen_" + scen),
                      workers=8, timeout=900)
    res = []
    for line in out.splitlines():
        if line.startswith('"SCHEDULE '):
            s = json.loads(line)
            r = json.loads(s[len("SCHEDULE "):])
            if isinstance(r["prog"], list):
                r["prog"] = {}
            res.append(r)
    if not res or "No error has been found" not in out:
        raise Inconclusive("schedule generation for %s failed:\n%s" % (scen, out[-1500:]))
    gen, distinct = tlc_stats(out)
    # stable order so that a seed selects the same sample
    res.sort(key=lambda r: json.dumps(r, sort_keys=True))
    return res, distinct


def run_mc(run):
    t0 = time.time()
    rc, out = run_tlc("RosmarConc.tla", os.path.join(SPEC, "MC_Conc_intended.cfg"), os.path.join(run, "meta_mc"), workers=16, timeout=1800)
    if rc != 0 or "No error has been found" not in out:
        raise Inconclusive("Leg A: RosmarConc (intended design) did not check cleanly: %s" % tlc_errors(out)[:3])
    gen, distinct = tlc_stats(out)
    rc2, out2 = run_tlc("RosmarConc.tla", os.path.join(SPEC, "MC_Conc_ascode.cfg"), os.path.join(run, "meta_mc2"), workers=16, timeout=1800)
    witness = "Invariant FeedCasOrdered is violated" in out2
    if not witness:
        raise Inconclusive("vacuity control: the pre-repair step structure no longer violates FeedCasOrdered")
    return {"cfg": "MC_Conc_intended.cfg", "states": distinct, "transitions": gen, "wall_s": round(time.time() - t0, 1),
            "witness_ascode_violates_FeedCasOrdered": witness}


def run(tier, seed, vh, only_paths=None, mode=None):
    t0 = time.time()
    run = scratch_dir("conc-%s-%d" % (tier, seed))
    os.makedirs(os.path.join(run, "buckets"), exist_ok=True)
    res = {"family": "conc", "tier": tier, "seed": seed}
    rnd = random.Random(seed)
    cases = []
    if only_paths is None:
        res["mc"] = run_mc(run)
        gen_states = 0
        counts = {}
        for scen, limit in (("race", 300 if tier == "quick" else None), ("race3", 100 if tier == "quick" else 2000), ("order", None), ("join", 120 if tier == "quick" else 3000),
                            ("resume", 120 if tier == "quick" else 3000), ("dumpstop", None)):
            scheds, distinct = gen_schedules(run, scen)
            gen_states += distinct
            counts[scen] = len(scheds)
            if limit and len(scheds) > limit:
                # two thirds of the sample from the schedules in which a stop discards the queued mutation that
                # directly follows the checkpoint (labelled by the specification's history variable `dropped`)
                tight = [x for x in scheds if x.get("dropped")]
                rest = [x for x in scheds if not x.get("dropped")]
                nt = min(len(tight), 2 * limit // 3)
                scheds = rnd.sample(tight, nt) + rnd.sample(rest, min(len(rest), limit - nt))
            for i, sc in enumerate(scheds):
                variants = ["kv"]
                if scen in ("join", "resume", "order") and "set" in sc["prog"].values():
                    variants = ["kv", "kvadd"]
                if scen in ("join", "order"):
                    variants = variants + ["kv2"]
                if scen in ("join", "resume") and "set" in sc["prog"].values():
                    variants = variants + ["kvmeta"]
                if scen in ("race", "race3"):
                    variants = ["kv", "subdoc", "subabs", "subdel", "xattr", "xtomb", "kvopt", "kvadd", "kvexp", "kvtouch", "xres"]
                for v in variants:
                    if v == "kvopt" and not set(sc["prog"].values()) & {"set", "incr"}:
                        continue
                    if v == "kvadd" and "set" not in sc["prog"].values():
                        continue
                    if v == "subabs" and not (set(sc["prog"].values()) <= {"update", "casw", "incr", "set"} and set(sc["prog"].values()) & {"update", "incr"}):
                        continue
                    if v == "subdoc" and not set(sc["prog"].values()) <= {"update", "casw", "incr"}:
                        continue
                    if v == "subdel" and not (set(sc["prog"].values()) <= {"update", "casw", "incr", "remove", "set"}
                                              and set(sc["prog"].values()) & {"remove", "set"} and set(sc["prog"].values()) & {"update", "casw", "incr"}):
                        continue
                    if v == "kvexp" and "update" not in sc["prog"].values():
                        continue
                    if v == "kvtouch" and not (set(sc["prog"].values()) & {"set", "get"} and set(sc["prog"].values()) & {"update", "incr", "casw"}):
                        continue
                    if v in ("xattr", "xtomb") and not set(sc["prog"].values()) <= {"update", "casw", "set"}:
                        continue
                    if v == "xres" and not (set(sc["prog"].values()) <= {"update", "casw", "set", "incr"} and "update" in sc["prog"].values()
                                            and set(sc["prog"].values()) & {"set", "incr"}):
                        continue
                    case = to_case("%s-%d-%s" % (scen, i, v), SCENARIOS[scen], sc["prog"], sc["sched"], v)
                    # every other feed case runs with the physical clock standing still, so that consecutive
                    # mutations carry consecutive CAS values (checkpoint + 1 is then a document's CAS)
                    # the model's collection holds one document: let the feeds begin at the case's start marker
                    # (one case in five keeps the whole collection in its backfill)
                    if scen in ("join", "resume", "dumpstop") and i % 5 != 4:
                        case["frombase"] = True
                    if scen in ("order", "join", "resume") and (i % 2 == 1 or sc.get("dropped")):
                        case["frozen"] = True
                    cases.append(case)
        res["gen_states"] = gen_states
        res["schedules_available"] = counts
        mode = mode or ("mem" if tier == "quick" else "both")
    else:
        cases = only_paths
        res["mc"] = {"states": 0, "transitions": 0}
        mode = mode or "mem"
    res["paths"] = len(cases)
    json.dump(cases, open(os.path.join(run, "cases.json"), "w"))
    # the gate scheduler runs one process of one case at a time, so the cases are spread over several driver
    # processes (each with its own buckets, trace file and validation)
    import concurrent.futures
    nproc = 1 if len(cases) < 40 else int(os.environ.get("VERIF_CONC_PROCS", "6"))
    slices = [cases[i::nproc] for i in range(nproc)]

    def one(i):
        sl = slices[i]
        cfile = os.path.join(run, "cases%d.json" % i)
        json.dump(sl, open(cfile, "w"))
        trace = os.path.join(run, "trace%d.ndjson" % i)
        bdir = os.path.join(run, "buckets", "p%d" % i)
        os.makedirs(bdir, exist_ok=True)
        rc, out = sh([vh, "conc", "-in", cfile, "-out", trace, "-mode", mode, "-scratch", bdir], timeout=7200)
        m = re.search(r"CONC cases=(\d+) lines=(\d+) errors=(\d+) skipped=(\d+)", out)
        if not m:
            raise Inconclusive("concurrent driver failed:\n" + out[-2000:])
        derr = [l for l in out.splitlines() if l.startswith("DRIVER-ERROR")]
        fails, distinct = fam_seq.validate(run, trace, par=3)
        if distinct - 1 != int(m.group(2)):
            raise Inconclusive("trace validation consumed %d of %s lines" % (distinct - 1, m.group(2)))
        fl = []
        for t in fails:
            props = t[1]["$set"] if isinstance(t[1], dict) else []
            tr = t[2]
            c = sl[(tr - 1) % len(sl)]
            sig = fam_seq.signature(t) if t[5] != "feed" else {"op": "feed", "kind": t[6][0], "backfill": t[6][4], "dump": t[6][5]}
            sig["scenario"] = c["name"].split("-")[0]
            sig.pop("mode", None)
            fl.append({"props": props, "trace": tr, "step": t[3], "mode": t[4], "op": t[5], "what": t[6], "sig": sig,
                       "expected": t[7], "observed": t[8], "ops": c})
        return [int(g) for g in m.groups()], derr, fl
    tot, derr, out_f = [0, 0, 0, 0], [], []
    with concurrent.futures.ThreadPoolExecutor(max_workers=nproc) as ex:
        for cnt, de, fl in ex.map(one, range(nproc)):
            tot = [a + b for a, b in zip(tot, cnt)]
            derr += de
            out_f += fl
    res["traces"] = tot[0] - tot[2] - tot[3]
    res["skipped_overlap"] = tot[3]
    if res["traces"] < 0.8 * tot[0]:
        raise Inconclusive("only %d of %s cases could be replayed: %s" % (res["traces"], tot[0], derr[:3]))
    res["lines"] = tot[1]
    res["driver_errors"] = derr
    # randomised stress with real parallelism (no gates), validated by SeqTrace!Stress
    if only_paths is None:
        strace = os.path.join(run, "stress.ndjson")
        nstress = 24 if tier == "quick" else 400
        rc, out = sh([vh, "stress", "-out", strace, "-n", str(nstress), "-seed", str(seed), "-scratch", os.path.join(run, "buckets")], timeout=3600)
        m2 = re.search(r"STRESS runs=(\d+) lines=(\d+)", out)
        if not m2:
            raise Inconclusive("stress driver failed:\n" + out[-1500:])
        json.dump({"b0": {"k": "none", "o": {"a": "-", "n": "-", "n.x": "-", "v": "-"}, "r": [], "n": 0},
                   "b1": {"k": "nomacro", "o": {"a": "-", "n": "-", "n.x": "-", "v": "-"}, "r": [], "n": 0}}, open(strace + ".bodies.json", "w"))
        sfails, sdistinct = fam_seq.validate(run, strace)
        if sdistinct - 1 != int(m2.group(2)):
            raise Inconclusive("stress validation consumed %d of %s lines" % (sdistinct - 1, m2.group(2)))
        for t in sfails:
            out_f.append({"props": t[1]["$set"], "trace": t[2], "step": t[3], "mode": t[4], "op": "stress", "what": t[6],
                          "sig": {"op": "stress", "kind": str(t[6][0])}, "expected": t[7], "observed": str(t[8])[:400],
                          "ops": {"name": "stress", "procs": [], "schedule": [], "seed": seed, "run": t[2]}})
        res["stress_runs"] = int(m2.group(1))
        res["traces"] += int(m2.group(1))
        res["lines"] += int(m2.group(2))
    res["fails"] = out_f
    res["steps"] = res["lines"]
    res["distinct_cases"] = len({json.dumps([c["procs"], c["schedule"]], sort_keys=True) for c in cases})
    res["samples"] = [{"name": c["name"], "procs": [[o["op"] for o in p["ops"]] for p in c["procs"]], "schedule": c["schedule"]} for c in cases[:3]]
    res["wall_s"] = round(time.time() - t0, 1)
    # a case the driver could not complete (watchdog) is inconclusive unless it is a known wedge
    if derr:
        res["driver_error_count"] = len(derr)
    return res
