"""Sequential family (C01 C02 C05 C06 C07 C08-content C09-content C11 C17 C18): pipeline
   Leg A  TLC exhaustive model checking of RosmarSeq (MC_Seq*.cfg)
   Leg B  TLC simulation of GenSeq -> operation sequences -> executed on the real code (vh seq)
   Leg C  TLC trace validation of everything the code did (SeqTrace)"""
import json, os, re, time
from common import *

PROPS = ["C01", "C02", "C05", "C06", "C07", "C08", "C09", "C11", "C17", "C18"]

EV_FIELDS = ["op", "key", "body", "json", "xf", "cas", "exp", "rev", "coll", "xa"]


def ev_diff(want, got):
    if not isinstance(want, list) or not isinstance(got, list):
        return "shape"
    if len(want) != len(got):
        return "count:%d/%d" % (len(want), len(got))
    fields = []
    for w, g in zip(want, got):
        if not isinstance(w, list) or not isinstance(g, list) or len(w) != len(g):
            return "shape"
        for i, (a, b) in enumerate(zip(w, g)):
            if a != b and EV_FIELDS[i] not in fields:
                fields.append(EV_FIELDS[i])
    return "+".join(fields) if fields else "order"


DOC_FIELDS = ["class", "body", "cas", "exp", "rev", "xa"]


def outcome_diff(exp, got):
    """which fields of the observed document differ from every allowed outcome"""
    try:
        outs = exp["$set"]
        gcls, gcas, gdoc = got
        best = None
        for cls, doc in outs:
            d = []
            if gcls not in cls["$set"]:
                d.append("result")
            for i, (a, b) in enumerate(zip(doc, gdoc)):
                if a != b:
                    d.append(DOC_FIELDS[i])
            if best is None or len(d) < len(best):
                best = d
        return "+".join(best) if best else "return"
    except Exception:
        return "?"


def signature(t):
    _, props, tr, i, mode, op, what, exp, got = t
    sig = {"op": op, "kind": what[0], "mode": mode}
    if what[0] == "outcome":
        sig.update(pre=what[1], casc=what[2], opt=what[3], res=what[4], diff=outcome_diff(exp, got))
    elif what[0] == "live":
        sig.update(pre=what[2], diff=ev_diff(exp, got), target=what[1])
    elif what[0] == "dump":
        sig.update(diff=ev_diff(exp, got))
    elif what[0] == "rev":
        sig.update(pre=what[1])
    elif what[0] in ("other-doc-changed", "readers-disagree", "purge"):
        sig.update(where=what[1])
    elif what[0] == "aux":
        sig.update(aux=what[1])
    return sig


def gen_paths(run, seed, nper, depth, procs=8):
    """TLC simulation of GenSeq: `procs` TLC processes with different seeds, nper behaviours each."""
    import concurrent.futures
    cfg = os.path.join(run, "Gen_Seq_%d.cfg" % depth)
    txt = open(os.path.join(SPEC, "Gen_Seq.cfg")).read()
    txt = re.sub(r"MaxOps = \d+", "MaxOps = %d" % depth, txt)
    open(cfg, "w").write(txt)

    def one(j):
        return run_tlc("GenSeq.tla", cfg, os.path.join(run, "meta_gen_%d_%d" % (depth, j)),
                       extra=["-simulate", "num=%d" % nper, "-depth", str(depth + 2), "-seed", str(seed * 1000 + j)],
                       workers=1, timeout=900)
    paths, seen, gen = [], set(), 0
    with concurrent.futures.ThreadPoolExecutor(max_workers=procs) as ex:
        for rc, out in ex.map(one, range(procs)):
            for line in out.splitlines():
                if line.startswith('<<"BEHAVIOUR"'):
                    m = re.match(r'<<"BEHAVIOUR", (".*")>>$', line.strip())
                    s = json.loads(m.group(1))
                    if s not in seen:
                        seen.add(s)
                        paths.append(json.loads(s))
            gen += tlc_stats(out)[0]
    if not paths:
        raise Inconclusive("TLC generated no behaviours")
    return paths, gen


def gen_cover(run, seed, cap):
    """Directed generation (GenCover): every scripted prefix x every operation x up to `cap` instances, breadth-first."""
    cfg = os.path.join(run, "Gen_Cover_%d.cfg" % cap)
    txt = open(os.path.join(SPEC, "Gen_Cover.cfg")).read()
    open(cfg, "w").write(re.sub(r"Cap = \d+", "Cap = %d" % cap, txt))
    rc, out = run_tlc("GenCover.tla", cfg, os.path.join(run, "meta_cover"), extra=["-seed", str(seed * 1000 + 77)], workers=1, timeout=900)
    paths, seen = [], set()
    for line in out.splitlines():
        if line.startswith('<<"BEHAVIOUR"'):
            m = re.match(r'<<"BEHAVIOUR", (".*")>>$', line.strip())
            sj = json.loads(m.group(1))
            if sj not in seen:
                seen.add(sj)
                paths.append(json.loads(sj))
    if not paths or "No error has been found" not in out:
        raise Inconclusive("TLC generated no directed behaviours:\n" + out[-800:])
    return paths, tlc_stats(out)[0]


def run_mc(run, cfgname, timeout):
    t0 = time.time()
    rc, out = run_tlc("RosmarSeq.tla", os.path.join(SPEC, cfgname), os.path.join(run, "meta_mc"),
                      workers=16, timeout=timeout, extra=["-lncheck", "final"] if False else [])
    gen, distinct = tlc_stats(out)
    errs = tlc_errors(out)
    if rc != 0 or errs or "Model checking completed. No error has been found" not in out:
        raise Inconclusive("Leg A (%s): TLC did not complete cleanly (rc=%d): %s" % (cfgname, rc, errs[:3] or out[-800:]))
    res = {"cfg": cfgname, "states": distinct, "transitions": gen, "wall_s": round(time.time() - t0, 1)}
    # the view index (C12): the design, and three witnesses that must violate UpToDateIsExact
    rc, out = run_tlc("RosmarView.tla", os.path.join(SPEC, "MC_View_design.cfg"), os.path.join(run, "meta_mc_view"), workers=16, timeout=timeout)
    g2, d2 = tlc_stats(out)
    if rc != 0 or tlc_errors(out) or "Model checking completed. No error has been found" not in out:
        raise Inconclusive("Leg A (RosmarView): TLC did not complete cleanly: %s" % (tlc_errors(out)[:3] or out[-800:]))
    for w in ("w_noinvalidate", "w_bucketmark", "w_clockblind"):
        rcw, outw = run_tlc("RosmarView.tla", os.path.join(SPEC, "MC_View_%s.cfg" % w), os.path.join(run, "meta_mc_view_" + w), workers=8, timeout=600)
        if "UpToDateIsExact is violated" not in outw:
            raise Inconclusive("vacuity control: RosmarView witness %s no longer violates UpToDateIsExact" % w)
    res["view_model"] = {"cfg": "MC_View_design", "states": d2, "transitions": g2,
                         "witnesses_violate": ["InvalidateOnForeign=FALSE", "OwnMark=FALSE", "ClockSeesForeign=FALSE"]}
    res["states"] += d2
    res["transitions"] += g2
    return res


def validate(run, trace, workers=1, timeout=3600, chunk_lines=3000, par=8):
    """TLC trace validation. Big trace files are split at trace boundaries ("reset" lines) into chunks that are
    validated by parallel TLC processes; returns (FAIL tuples, consumed lines + 1)."""
    import concurrent.futures
    chunks, cur, n = [], [], 0
    with open(trace) as fh:
        for line in fh:
            if line.startswith('{"k":"reset"') and len(cur) >= chunk_lines:
                chunks.append(cur)
                cur = []
            cur.append(line)
            n += 1
    if cur:
        chunks.append(cur)
    base = os.path.basename(trace)

    def one(i):
        if len(chunks) == 1:
            cf = trace
        else:
            cf = os.path.join(run, "%s.chunk%d" % (base, i))
            with open(cf, "w") as fh:
                fh.writelines(chunks[i])
        rc, out = run_tlc("SeqTrace.tla", os.path.join(SPEC, "SeqTrace.cfg"), os.path.join(run, "meta_trace_%s_%d" % (base, i)),
                          env={"VERIF_TRACE": cf, "VERIF_BODIES": trace + ".bodies.json"}, timeout=timeout,
                          java_opts="-Xss512m -Xmx4g")
        if cf != trace:
            os.remove(cf)
        ok = "Model checking completed. No error has been found" in out
        if not ok:
            raise Inconclusive("trace validation did not complete (rc=%d):\n%s" % (rc, "\n".join(
                l[:300] for l in out.splitlines() if l.startswith("Error") or "exception" in l.lower())[:1500]))
        gen, distinct = tlc_stats(out)
        if distinct - 1 != len(chunks[i]):
            raise Inconclusive("trace validation consumed %d of %d lines of chunk %d" % (distinct - 1, len(chunks[i]), i))
        return fail_tuples(out), distinct - 1
    fails, consumed = [], 0
    with concurrent.futures.ThreadPoolExecutor(max_workers=par) as ex:
        for f, c in ex.map(one, range(len(chunks))):
            fails += f
            consumed += c
    return fails, consumed + 1


def execute(run, vh, paths, mode, workers=16, tag=""):
    pfile = os.path.join(run, "paths%s.json" % tag)
    json.dump(paths, open(pfile, "w"))
    trace = os.path.join(run, "trace%s.ndjson" % tag)
    rc, out = sh([vh, "seq", "-in", pfile, "-out", trace, "-mode", mode, "-aux", "-workers", str(workers),
                  "-scratch", os.path.join(run, "buckets")], timeout=3600)
    os.makedirs(os.path.join(run, "buckets"), exist_ok=True)
    m = re.search(r"SEQ paths=(\d+) lines=(\d+) errors=(\d+)", out)
    if not m:
        raise Inconclusive("sequential driver failed:\n" + out[-2000:])
    derr = [l for l in out.splitlines() if l.startswith("DRIVER-ERROR")]
    return trace, int(m.group(1)), int(m.group(2)), derr


def run(tier, seed, vh, only_paths=None, mode=None):
    t0 = time.time()
    run = scratch_dir("seq-%s-%d" % (tier, seed))
    os.makedirs(os.path.join(run, "buckets"), exist_ok=True)
    res = {"family": "seq", "tier": tier, "seed": seed, "phases": {}}
    tp = time.time()

    def phase(name):
        nonlocal tp
        res["phases"][name] = round(res["phases"].get(name, 0) + time.time() - tp, 1)
        tp = time.time()
    if only_paths is None:
        res["mc"] = run_mc(run, "MC_Seq.cfg" if tier == "quick" else "MC_Seq_thorough.cfg", 3000)
        if tier == "quick":
            paths, gen = gen_paths(run, seed, 60, 6)
            p2, g2 = gen_paths(run, seed + 7, 15, 12)
        else:
            paths, gen = gen_paths(run, seed, 800, 6, procs=16)
            p2, g2 = gen_paths(run, seed + 7, 200, 14, procs=16)
        paths += p2
        phase("mc+gen")
        res["gen_states"] = gen + g2
        mode = mode or "both"
    else:
        paths = only_paths
        res["mc"] = {"states": 0, "transitions": 0}
        mode = mode or "mem"
    batches = [("", paths, mode)]
    if only_paths is None:
        cover, g3 = gen_cover(run, seed, 12 if tier == "quick" else 200)
        res["gen_states"] += g3
        res["directed_paths"] = len(cover)
        batches.append(("_cover", cover, "mem" if tier == "quick" else "both"))
    res["paths"] = sum(len(b[1]) for b in batches)
    res["traces"] = res["lines"] = 0
    res["driver_errors"] = []
    out, traces = [], []
    for tag, bpaths, bmode in batches:
        phase("gen")
        trace, npaths, nlines, derr = execute(run, vh, bpaths, bmode, tag=tag)
        phase("execute")
        traces.append(trace)
        res["traces"] += npaths
        res["lines"] += nlines
        res["driver_errors"] += derr
        fails, distinct = validate(run, trace)
        phase("validate")
        if distinct - 1 != nlines:
            raise Inconclusive("trace validation consumed %d of %d lines" % (distinct - 1, nlines))
        for t in fails:
            props = t[1]["$set"] if isinstance(t[1], dict) else []
            tr, i, m = t[2], t[3], t[4]
            if bmode == "both":
                pidx, pm = (tr - 1) // 2, ("mem" if tr % 2 == 1 else "disk")
            else:
                pidx, pm = tr - 1, bmode
            ops = bpaths[pidx][:i] if 0 <= pidx < len(bpaths) else []
            out.append({"props": props, "trace": tr, "step": i, "mode": pm, "op": t[5], "what": t[6],
                        "sig": signature(t), "expected": t[7], "observed": t[8], "ops": ops})
    derr = res["driver_errors"]
    res["fails"] = out
    # coverage: distinct (operation, argument-class, result) triples actually executed
    cov = set()
    nsteps = 0
    for trace in traces:
      with open(trace) as fh:
        for line in fh:
            e = json.loads(line)
            if e["k"] != "call":
                continue
            nsteps += 1
            cov.add((e["op"], e["a"]["casc"], e["a"]["opt"], e["a"]["hasbody"], e["r"]["cls"], e["mode"]))
    res["steps"] = nsteps
    res["distinct_cases"] = len(cov)
    res["samples"] = [[{k: v for k, v in op.items() if v not in ("", False, 0, [], "-", "zero", "hi") and k != "sets"
                        or k == "op"} for op in p] for p in paths[:2]]
    res["wall_s"] = round(time.time() - t0, 1)
    if tier != "quick":
        for trace in traces:      # gigabytes in the thorough tier
            os.remove(trace)
    if derr:
        raise Inconclusive("driver errors: " + "; ".join(derr[:3]))
    return res
