#!/bin/bash
# harvest.sh <worktree> <id>: store the seeded change under /verif/seeded/<id> and confirm, in a fresh scratch worktree of
# /repo's HEAD, that (1) the existing suite passes with it, (2) the demo fails with it, (3) the demo passes without it.
set -u
wt=$1; id=$2
export GOFLAGS=-mod=mod GOPROXY=off GOSUMDB=off GOTOOLCHAIN=local
dst=/verif/seeded/$id
mkdir -p $dst
git -C $wt diff > $dst/patch.diff
cp $wt/seeded_demo_test.go $dst/seeded_demo_test.go.txt
cp $wt/seeded_meta.json $dst/agent_meta.json 2>/dev/null
scratch=/tmp/harvest_$id
git -C /repo worktree remove --force $scratch 2>/dev/null
git -C /repo worktree add -q --detach $scratch HEAD || exit 2
cd $scratch
if ! git apply --3way $dst/patch.diff 2>/tmp/harvest_apply.err && ! patch -p1 -s < $dst/patch.diff; then echo "$id: PATCH DOES NOT APPLY"; cat /tmp/harvest_apply.err | head -5; fi
git diff HEAD > $dst/patch.diff   # re-based on the current HEAD
git reset -q
suite=$(go test -vet=off -count=1 ./... 2>&1 | tail -1)
cp $dst/seeded_demo_test.go.txt seeded_demo_test.go
with=$(go test -vet=off -count=1 -run 'TestSeededDemo$' . 2>&1 | tail -1)
git checkout -q -- .
without=$(go test -vet=off -count=1 -run 'TestSeededDemo$' . 2>&1 | tail -1)
cd /
git -C /repo worktree remove --force $scratch
echo "$id | suite-with-change: $suite | demo-with: $with | demo-without: $without | patch lines: $(wc -l < $dst/patch.diff)"
