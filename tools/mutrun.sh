#!/bin/bash
# mutrun.sh <seeded id> <property>...: evaluate the committed checks against one seeded change, in scratch copies
# (a copy of /verif and a worktree of /repo with the patch applied), so that development can continue meanwhile.
set -u
id=$1; shift
base=/tmp/mv_$id
rm -rf $base; mkdir -p $base
rsync -a --exclude .cache --exclude .git --exclude replays /verif/ $base/verif/
git -C /repo worktree remove --force $base/repo 2>/dev/null
git -C /repo worktree add -q --detach $base/repo HEAD || exit 2
(cd $base/repo && git apply /verif/seeded/$id/patch.diff) || { echo "$id: patch does not apply"; exit 2; }
sed -i "s#=> /repo#=> $base/repo#" $base/verif/harness/go.mod
cp $base/repo/go.sum $base/verif/harness/go.sum
own=${id##*-}
for p in "$@"; do
  # the record for the change's own property is detection.txt; evaluations under other properties go to detection.<prop>.txt
  if [ "$p" = "$own" ]; then out=/verif/seeded/$id/detection.txt; else out=/verif/seeded/$id/detection.$p.txt; fi
  : > $out
  (cd $base/verif && VERIF_REPO=$base/repo timeout 3000 ./check $p > $base/$p.out 2>&1; echo "exit=$?" >> $base/$p.out)
  v=$(grep -c '^VIOLATION' $base/$p.out); ex=$(grep '^exit=' $base/$p.out)
  echo "$id $p violations=$v $ex" | tee -a $out
  grep -A1 '^VIOLATION' $base/$p.out | grep '^  ' | head -4 | cut -c1-220 >> $out
  grep '^INCONCLUSIVE' $base/$p.out | cut -c1-300 >> $out
done
git -C /repo worktree remove --force $base/repo
rm -rf $base
