"""Crash family (C10).
   Leg A  the atomicity argument lives in RosmarStore (a call has exactly its listed outcomes) and SeqTrace!Reopen
          (acknowledged state, or one whole outcome of the in-flight call); RosmarSeq is model-checked by the sequential family
   Leg B  TLC-generated histories (GenSeq) x every crash position (operation index x hook site, plus 'before the call' and
          'after the acknowledgement') are executed by a child process on an on-disk bucket; the child SIGKILLs itself at the position
   Leg C  a different process re-opens the bucket; SeqTrace validates the acknowledged prefix and the Reopen step"""
import concurrent.futures, json, os, random, re, shutil, time
from common import *
import fam_seq

PROPS = ["C10"]
SITES = ["op.start", "txn.enter", "txn.locked", "txn.begin", "cas.new", "cas.afterdoc", "txn.precommit", "txn.committed",
         "post.before", "post.after", "update.read.done", "subdoc.read.done", "wuwx.read.done", "op.acked"]


def run(tier, seed, vh, only_paths=None, mode=None):
    t0 = time.time()
    run = scratch_dir("crash-%s-%d" % (tier, seed))
    res = {"family": "crash", "tier": tier, "seed": seed, "mc": {"states": 0, "transitions": 0}}
    rnd = random.Random(seed)
    if only_paths is None:
        hist, gen = fam_seq.gen_paths(run, seed + 31, 8 if tier == "quick" else 40, 5, procs=4)
        # crash traces observe documents only: keep histories on the keys the checker projects
        cases = []
        for h in hist[: (16 if tier == "quick" else 120)]:
            for at in range(1, len(h) + 1):
                for site in SITES:
                    cases.append({"ops": h, "at": at, "site": site})
        # the clean run (no crash) of every history is the baseline
        for h in hist[: (16 if tier == "quick" else 120)]:
            cases.append({"ops": h, "at": 0, "site": "none"})
        # directed histories (GenCover): calls whose implementation takes several statements or transactions, killed at
        # every site of that call only
        cover, g3 = fam_seq.gen_cover(run, seed + 5, 2 if tier == "quick" else 6)
        multi = {"SetWithMeta", "DeleteWithMeta", "WriteUpdateWithXattrs", "Update", "WriteSubDoc", "SubdocInsert", "DeleteSubDocPaths",
                 "Incr", "SwapDDoc", "WriteWithXattrs", "WriteTombstoneWithXattrs", "UpdateXattrDeleteBody", "Touch", "GetAndTouchRaw"}
        cand = [h for h in cover if len(h) >= 2 and h[-2]["op"] in multi and all(o["coll"] == "c1" or o["op"] in ("Set", "Add") for o in h)]
        rnd.shuffle(cand)
        for h in cand[: (24 if tier == "quick" else 200)]:
            for site in SITES:
                cases.append({"ops": h, "at": len(h) - 1, "site": site})
        gen += g3
        # a pending expiration that belongs to a tombstone and to nothing else (GetExpiry does not show it; the timer must still be re-armed)
        tomb = [h for h in cover if h[0]["op"] in ("WriteTombstoneWithXattrs",) and h[0].get("exp") == "E1"]
        for h in tomb[:1]:
            cases.append({"ops": h[:1], "at": 1, "site": "op.acked"})
            cases.append({"ops": h[:1], "at": 0, "site": "none"})
        tomb2 = [h for h in cover if len(h) >= 2 and h[0]["op"] == "WriteWithXattrs" and h[1]["op"] == "UpdateXattrDeleteBody" and h[1].get("exp") == "E1"]
        for h in tomb2[:1]:
            cases.append({"ops": h[:2], "at": 2, "site": "op.acked"})
            cases.append({"ops": h[:2], "at": 0, "site": "none"})
        # a pending expiration whose deadline passes while the bucket is closed: killed right after the last
        # acknowledgement, or ended without a crash; re-opened two seconds after the deadline
        for h in hist[: (3 if tier == "quick" else 12)]:
            cases.append({"ops": h, "at": len(h), "site": "op.acked", "late": 2})
            cases.append({"ops": h, "at": 0, "site": "none", "late": 2})
        res["gen_states"] = gen
    else:
        cases = only_paths
    os.makedirs(os.path.join(run, "b"), exist_ok=True)

    def one(i):
        c = cases[i]
        d = os.path.join(run, "b", "case%d" % i)
        shutil.rmtree(d, ignore_errors=True)
        opsf = os.path.join(run, "b", "ops%d.json" % i)
        json.dump(c["ops"], open(opsf, "w"))
        raw = os.path.join(run, "b", "raw%d.ndjson" % i)
        out = os.path.join(run, "b", "out%d.ndjson" % i)
        for f in (raw, out, out + ".bodies.json"):
            if os.path.exists(f):
                os.remove(f)
        late = c.get("late", 0)
        t1 = time.time()
        rc1, o1 = sh([vh, "crashchild", "-ops", opsf, "-dir", d, "-out", raw, "-at", str(c["at"]), "-site", c["site"]]
                     + (["-late", str(late)] if late else []), timeout=120)
        killed = rc1 in (-9, 137)
        if late:
            time.sleep(max(0.0, t1 + late + 2.0 - time.time()))
        rc2, o2 = sh([vh, "crashcheck", "-ops", opsf, "-dir", d, "-raw", raw, "-tr", str(i + 1), "-at", str(c["at"]), "-site", c["site"], "-out", out]
                     + (["-late"] if late else []), timeout=120)
        shutil.rmtree(d, ignore_errors=True)
        if rc2 != 0:
            return i, killed, None, (o1 + o2)[-400:]
        return i, killed, out, ""
    results = []
    with concurrent.futures.ThreadPoolExecutor(max_workers=16) as ex:
        results = list(ex.map(one, range(len(cases))))
    trace = os.path.join(run, "trace.ndjson")
    bodies = {}
    lines = 0
    errs = []
    nkilled = 0
    seen_sig = set()
    with open(trace, "w") as tw:
        for i, killed, out, err in results:
            if out is None:
                errs.append("case %d: %s" % (i, err))
                continue
            nkilled += 1 if killed else 0
            # a crash position that was not reached (the site never fires in that call) ends like the clean run: keep one of each
            for line in open(out):
                tw.write(line)
                lines += 1
            bodies.update(json.load(open(out + ".bodies.json")))
            os.remove(out)
    json.dump(bodies, open(trace + ".bodies.json", "w"))
    if len(errs) > len(cases) // 10:
        raise Inconclusive("crash harness failed on %d of %d cases: %s" % (len(errs), len(cases), errs[:2]))
    fails, distinct = fam_seq.validate(run, trace)
    if distinct - 1 != lines:
        raise Inconclusive("trace validation consumed %d of %d lines" % (distinct - 1, lines))
    out_f = []
    for t in fails:
        props = t[1]["$set"] if isinstance(t[1], dict) else []
        tr = t[2]
        c = cases[tr - 1] if 0 < tr <= len(cases) else {"ops": [], "at": 0, "site": "?"}
        what = t[6]
        if what and what[0] in ("not-all-or-nothing", "reopen-failed", "identity-lost", "high-water-mark-behind-document",
                                "pending-expiration-not-rearmed", "readers-disagree-after-reopen"):
            sig = {"op": t[5], "kind": what[0], "site": what[1] if len(what) > 1 else ""}
        else:
            sig = fam_seq.signature(t)
            sig.pop("mode", None)
            props = [p for p in props] + ["C10"] if "C10" not in props else props
        out_f.append({"props": props, "trace": tr, "step": t[3], "mode": "disk", "op": t[5], "what": what, "sig": sig,
                      "expected": t[7], "observed": t[8], "ops": c})
    res.update(fails=out_f, paths=len(cases), traces=len(cases) - len(errs), lines=lines, steps=lines, killed=nkilled,
               distinct_cases=len({(json.dumps(c["ops"], sort_keys=True), c["at"], c["site"]) for c in cases}),
               samples=[{"ops": [o["op"] for o in c["ops"]], "at": c["at"], "site": c["site"]} for c in cases[:3]],
               driver_errors=errs[:5], wall_s=round(time.time() - t0, 1))
    return res
