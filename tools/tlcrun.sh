#!/bin/bash
# usage: tlcrun.sh <spec.tla> <cfg> <metadir> [extra tlc args]  -- prints FAIL tuples, summary, and truncated errors
spec=$1; cfg=$2; meta=$3; shift 3
cd "$(dirname "$spec")"
rm -rf "$meta"; mkdir -p "$meta"
timeout ${TLC_TIMEOUT:-600} tlc -workers ${TLC_WORKERS:-1} -metadir "$meta" -noGenerateSpecTE -config "$cfg" "$@" "$(basename "$spec")" > "$meta/out.txt" 2>&1
rc=$?
grep -a "^<<\"" "$meta/out.txt" | cut -c1-${TLC_CUT:-600} | head -${TLC_FAILS:-40}
grep -aE "^(Error|[0-9]+ states generated|Finished in|The exception|: |line [0-9]+, col|.*Unknown operator|.*requires [0-9]+ arg|Parsing or semantic)" "$meta/out.txt" | cut -c1-400 | head -${TLC_HEAD:-30}
echo "tlc-exit=$rc"
