"""View family (C12).
   Leg A  TLC model checking of RosmarView (UpToDateIsExact; three witnesses must violate it) - run by the sequential family
   Leg B  TLC simulation of RosmarView -> action lists (regular writes, writes to another collection, caller-chosen CAS at / below /
          between / above the marks, purges, design-document replacements, queries at the places the model chose) replayed on the
          real code with the physical clock standing still (vh view)
   Leg C  TLC trace validation (ViewTrace): every non-stale query returns the map of the current documents, every stale=ok query the
          specification's index as it is"""
import concurrent.futures, json, os, re, time
from common import *

PROPS = ["C12"]


def run(tier, seed, vh, only_paths=None, mode=None):
    t0 = time.time()
    run = scratch_dir("view-%s-%d" % (tier, seed))
    res = {"family": "view", "tier": tier, "seed": seed, "mc": {"states": 0, "transitions": 0}}
    if only_paths is None:
        # unbounded CAS values, versions and steps: Apalache discharges that ViewInductive!IndInv is an inductive invariant
        # and implies the property; the same step check must FAIL when the clock does not learn of a caller-chosen CAS
        apa = {}
        adir = os.path.join(SPEC, "apalache")
        for nm, args in (("base", ["--init=Init", "--inv=IndInv", "--length=0"]), ("step", ["--init=IndInit", "--inv=IndInv", "--length=1"]),
                         ("implies", ["--init=IndInit", "--inv=UpToDateIsExact", "--length=0"])):
            rc3, out3 = sh(["apalache-mc", "check"] + args + ["--out-dir=" + os.path.join(run, "apalache_" + nm), "ViewInductive.tla"], timeout=300, cwd=adir)
            apa[nm] = "EXITCODE: OK" in out3 and "The outcome is: NoError" in out3
            if not apa[nm]:
                raise Inconclusive("Apalache did not discharge the %s case of the view index's inductive invariant:\n%s" % (nm, out3[-800:]))
        vdir = os.path.join(run, "apalache_variant")
        os.makedirs(vdir, exist_ok=True)
        src = open(os.path.join(adir, "ViewInductive.tla")).read()
        if "clock' = Max2(clock, c)" not in src:
            raise Inconclusive("ViewInductive.tla no longer has the clause the vacuity control edits")
        open(os.path.join(vdir, "ViewInductive.tla"), "w").write(src.replace("clock' = Max2(clock, c)", "clock' = clock"))
        rc4, out4 = sh(["apalache-mc", "check", "--init=IndInit", "--inv=IndInv", "--length=1", "--out-dir=" + os.path.join(run, "apalache_variant_out"),
                        "ViewInductive.tla"], timeout=300, cwd=vdir)
        if "The outcome is: Error" not in out4:
            raise Inconclusive("vacuity control: the clock-blind variant of ViewInductive is no longer rejected")
        res["mc"]["apalache_inductive_invariant"] = apa
        res["mc"]["apalache_variant_rejected"] = True
        n, procs = (200, 6) if tier == "quick" else (2500, 12)
        scripts, seen, gen = [], set(), 0

        def one(j):
            return run_tlc("RosmarView.tla", os.path.join(SPEC, "Gen_View.cfg"), os.path.join(run, "meta_gen_%d" % j),
                           extra=["-simulate", "num=%d" % n, "-depth", "20", "-seed", str(seed * 1000 + j)], workers=1, timeout=600)
        with concurrent.futures.ThreadPoolExecutor(max_workers=procs) as ex:
            for rc, out in ex.map(one, range(procs)):
                gen += tlc_stats(out)[0]
                for line in out.splitlines():
                    if line.startswith('"BEHAVIOUR '):
                        s = json.loads(line)[len("BEHAVIOUR "):]
                        if s not in seen:
                            seen.add(s)
                            scripts.append(json.loads(s))
        if not scripts:
            raise Inconclusive("TLC generated no view scripts")
        res["gen_states"] = gen
    else:
        scripts = only_paths
    sfile = os.path.join(run, "scripts.json")
    json.dump(scripts, open(sfile, "w"))
    # the clock is process-global: shards run in separate processes
    nsh = min(8, len(scripts))
    size = (len(scripts) + nsh - 1) // nsh

    def shard(k):
        lo, hi = k * size, min(len(scripts), (k + 1) * size)
        tf = os.path.join(run, "trace_%d.ndjson" % k)
        rc, out = sh([vh, "view", "-in", sfile, "-out", tf, "-from", str(lo), "-to", str(hi)], timeout=1800)
        return tf, out
    lines = 0
    trace = os.path.join(run, "trace.ndjson")
    with concurrent.futures.ThreadPoolExecutor(max_workers=nsh) as ex, open(trace, "w") as tw:
        for tf, out in ex.map(shard, range(nsh)):
            m = re.search(r"VIEW scripts=(\d+) lines=(\d+) errors=(\d+)", out)
            if not m or int(m.group(3)) > 0:
                raise Inconclusive("view driver failed:\n" + out[-1500:])
            for line in open(tf):
                tw.write(line)
                lines += 1
    rc, out = run_tlc("ViewTrace.tla", os.path.join(SPEC, "ViewTrace.cfg"), os.path.join(run, "meta_trace"),
                      env={"VERIF_TRACE": trace}, timeout=1800, java_opts="-Xss512m")
    if "No error has been found" not in out:
        raise Inconclusive("ViewTrace validation did not complete:\n" + "\n".join(l[:300] for l in out.splitlines() if l.startswith("Error"))[:1500])
    g, d = tlc_stats(out)
    if d - 1 != lines:
        raise Inconclusive("ViewTrace consumed %d of %d lines" % (d - 1, lines))
    fails = []
    for t in fail_tuples(out):
        tr, i = t[2], t[3]
        ops = scripts[tr - 1][:i] if 0 < tr <= len(scripts) else []
        fails.append({"props": t[1]["$set"], "trace": tr, "step": i, "mode": "mem", "op": t[5], "what": t[6],
                      "sig": {"op": t[5], "kind": str(t[6][0])}, "expected": t[7], "observed": t[8], "ops": ops})
    nq = sum(1 for s in scripts for a in s if a["a"] in ("query", "staleok"))
    res.update(fails=fails, paths=len(scripts), traces=len(scripts), lines=lines, steps=nq,
               distinct_cases=len({json.dumps(s, sort_keys=True) for s in scripts}), samples=scripts[:2],
               wall_s=round(time.time() - t0, 1))
    return res
