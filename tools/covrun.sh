#!/bin/bash
# covrun.sh [property...]: statement coverage of /repo's code by the quick checks (diagnostic, not a check): runs the
# given checks (default: one per family) in a scratch copy of /verif with a coverage-instrumented harness and prints
# the functions of rosmar that are covered least.
set -u
props=${@:-C01 C03 C13 C14 C04 C10}
base=/tmp/covrun
rm -rf $base; mkdir -p $base/cov
rsync -a --exclude .cache --exclude .git --exclude replays /verif/ $base/verif/
export GOFLAGS=-mod=mod GOPROXY=off GOSUMDB=off GOTOOLCHAIN=local
for p in $props; do
  (cd $base/verif && VERIF_COVER=1 GOCOVERDIR=$base/cov timeout 3000 ./check $p > $base/$p.out 2>&1; echo "$p exit=$?")
done
cd /repo && go tool covdata textfmt -i=$base/cov -o=$base/cover0.txt && grep -v "^verifharness" $base/cover0.txt > $base/cover.txt && go tool cover -func=$base/cover.txt > $base/func.txt
tail -1 $base/func.txt
grep -v "100.0%" $base/func.txt | sort -t$'\t' -k3 -n | awk '{print $NF, $1, $2}' | sort -n | head -${COVN:-80}
rm -rf $base/verif $base/cov
