"""Expiry family (C14).
   Leg A  TLC model checking of RosmarExpiry (TimerCoversEarliest, ExpiredSoon); witness: with TouchArms=FALSE the invariant fails
   Leg B  TLC simulation of RosmarExpiry (GenSpec) -> scripts with deadlines 2-4 s ahead -> executed on the real code (vh exp)
   Leg C  TLC trace validation (ExpTrace): expiry in force, timer state after every call, real-time timeline"""
import concurrent.futures, json, os, re, time
from common import *

PROPS = ["C14"]


def run(tier, seed, vh, only_paths=None, mode=None):
    t0 = time.time()
    run = scratch_dir("exp-%s-%d" % (tier, seed))
    res = {"family": "exp", "tier": tier, "seed": seed}
    if only_paths is None:
        rc, out = run_tlc("RosmarExpiry.tla", os.path.join(SPEC, "MC_Expiry.cfg" if tier == "quick" else "MC_Expiry_thorough.cfg"),
                          os.path.join(run, "meta_mc"), workers=16, timeout=1800)
        if rc != 0 or "No error has been found" not in out:
            raise Inconclusive("Leg A: RosmarExpiry did not check cleanly: %s" % tlc_errors(out)[:3])
        g, d = tlc_stats(out)
        # the witness configuration (Touch does not arm the timer) must break the invariant; its behaviours are
        # directed scripts for the real code (a deadline brought forward by a touch, with the expiry given either way)
        rc2, out2 = run_tlc("RosmarExpiry.tla", os.path.join(SPEC, "MC_Expiry_witness.cfg"), os.path.join(run, "meta_mc2"), workers=8, timeout=600,
                            extra=["-continue"])
        ws = [json.loads(l)[len("WITNESS "):] for l in out2.splitlines() if l.startswith('"WITNESS ')]
        if not ws:
            raise Inconclusive("vacuity control: TouchArms=FALSE no longer violates TimerCoversEarliest")
        rndw = __import__("random").Random(seed)
        ws = sorted(set(ws))
        rndw.shuffle(ws)
        witness_scripts = []
        for k, w in enumerate(ws[: (16 if tier == "quick" else 100)]):
            sc = json.loads(w)
            for o in sc:
                if o["op"] in ("Touch", "Set", "Add") and o["e"] > 0 and (k + len(o["key"])) % 2 == 0:
                    o["rel"] = True          # the same deadline given as an offset
            # something with an earlier or later deadline on another key afterwards: is the timer still right?
            sc.append({"op": "Set", "coll": "c0", "key": "k2", "e": 2 if k % 2 == 0 else 4, "rel": False})
            witness_scripts.append(sc)
        res["mc"] = {"cfg": "MC_Expiry", "states": d, "transitions": g, "witness_TouchArms_FALSE_violates": True}
        n, procs = (16, 4) if tier == "quick" else (50, 8)
        scripts, seen = [], set()

        def one(j):
            return run_tlc("RosmarExpiry.tla", os.path.join(SPEC, "Gen_Expiry.cfg"), os.path.join(run, "meta_gen_%d" % j),
                           extra=["-simulate", "num=%d" % n, "-depth", "9", "-seed", str(seed * 1000 + j)], workers=1, timeout=600)
        with concurrent.futures.ThreadPoolExecutor(max_workers=procs) as ex:
            for rc, out in ex.map(one, range(procs)):
                for line in out.splitlines():
                    if line.startswith('"BEHAVIOUR '):
                        s = json.loads(line)[len("BEHAVIOUR "):]
                        if s not in seen:
                            seen.add(s)
                            scripts.append(json.loads(s))
        if not scripts:
            raise Inconclusive("TLC generated no expiry scripts")
        scripts += witness_scripts
    else:
        scripts = only_paths
        res["mc"] = {"states": 0, "transitions": 0}
    res["paths"] = len(scripts)
    sfile = os.path.join(run, "scripts.json")
    json.dump(scripts, open(sfile, "w"))
    trace = os.path.join(run, "trace.ndjson")
    os.makedirs(os.path.join(run, "buckets"), exist_ok=True)
    rc, out = sh([vh, "exp", "-in", sfile, "-out", trace, "-scratch", os.path.join(run, "buckets"), "-mode", mode or "both"], timeout=3600)
    m = re.search(r"EXP scripts=(\d+) lines=(\d+) errors=(\d+)", out)
    if not m or int(m.group(3)) > 0:
        raise Inconclusive("expiry driver failed:\n" + out[-1500:])
    lines = int(m.group(2))
    rc, out = run_tlc("ExpTrace.tla", os.path.join(SPEC, "ExpTrace.cfg"), os.path.join(run, "meta_trace"),
                      env={"VERIF_TRACE": trace}, timeout=1800, java_opts="-Xss512m")
    if "No error has been found" not in out:
        raise Inconclusive("ExpTrace validation did not complete:\n" + "\n".join(l[:300] for l in out.splitlines() if l.startswith("Error"))[:1500])
    g, d = tlc_stats(out)
    if d - 1 != lines:
        raise Inconclusive("ExpTrace consumed %d of %d lines" % (d - 1, lines))
    fails = []
    for t in fail_tuples(out):
        tr, i = t[2], t[3]
        ops = scripts[tr - 1] if 0 < tr <= len(scripts) else []
        fails.append({"props": t[1]["$set"], "trace": tr, "step": i, "mode": t[4], "op": t[5], "what": t[6],
                      "sig": {"op": t[5] or "timeline", "kind": str(t[6][0])}, "expected": t[7], "observed": t[8],
                      "ops": ops[:i] if i else ops})
    res.update(fails=fails, traces=len(scripts), lines=lines, steps=lines,
               distinct_cases=len({json.dumps(s, sort_keys=True) for s in scripts}), samples=scripts[:2],
               wall_s=round(time.time() - t0, 1))
    return res
