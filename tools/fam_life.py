"""Lifecycle family (C13, C16, sequential part of C20; the Drop part of C11).
   Leg A  TLC exhaustive model checking of RosmarLife (MC_Life.cfg)
   Leg B  TLC simulation of RosmarLife (GenSpec) -> action lists -> executed on the real code (vh life), in several
          processes so that a process-level crash (e.g. close of a closed channel) is attributed to its behaviour
   Leg C  TLC trace validation (LifeTrace)"""
import concurrent.futures, json, os, re, time
from common import *

PROPS = ["C11", "C13", "C16", "C20"]


def gen(run, seed, nper, depth, procs):
    cfg = os.path.join(run, "Gen_Life_%d.cfg" % depth)
    open(cfg, "w").write(re.sub(r"MaxSteps = \d+", "MaxSteps = %d" % depth, open(os.path.join(SPEC, "Gen_Life.cfg")).read()))

    def one(j):
        return run_tlc("RosmarLife.tla", cfg, os.path.join(run, "meta_gen_%d_%d" % (depth, j)),
                       extra=["-simulate", "num=%d" % nper, "-depth", str(depth + 2), "-seed", str(seed * 1000 + j)], workers=1, timeout=900)
    behs, seen, gen_states = [], set(), 0
    with concurrent.futures.ThreadPoolExecutor(max_workers=procs) as ex:
        for rc, out in ex.map(one, range(procs)):
            for line in out.splitlines():
                if line.startswith('"BEHAVIOUR '):
                    s = json.loads(line)[len("BEHAVIOUR "):]
                    if s not in seen:
                        seen.add(s)
                        behs.append(json.loads(s))
            gen_states += tlc_stats(out)[0]
    if not behs:
        raise Inconclusive("TLC generated no lifecycle behaviours")
    return behs, gen_states


def run(tier, seed, vh, only_paths=None, mode=None):
    t0 = time.time()
    run = scratch_dir("life-%s-%d" % (tier, seed))
    res = {"family": "life", "tier": tier, "seed": seed}
    if only_paths is None:
        rc, out = run_tlc("RosmarLife.tla", os.path.join(SPEC, "MC_Life.cfg" if tier == "quick" else "MC_Life_thorough.cfg"),
                          os.path.join(run, "meta_mc"), workers=16, timeout=3000)
        if rc != 0 or "No error has been found" not in out:
            raise Inconclusive("Leg A: RosmarLife did not check cleanly: %s" % tlc_errors(out)[:3])
        g, d = tlc_stats(out)
        res["mc"] = {"cfg": "MC_Life", "states": d, "transitions": g}
        if tier == "quick":
            behs, gs = gen(run, seed, 40, 11, 8)
        else:
            behs, gs = gen(run, seed, 400, 12, 16)
        res["gen_states"] = gs
    else:
        behs = only_paths
        res["mc"] = {"states": 0, "transitions": 0}
    res["paths"] = len(behs)
    bfile = os.path.join(run, "behaviours.json")
    json.dump(behs, open(bfile, "w"))
    nshards = min(8, len(behs))
    size = (len(behs) + nshards - 1) // nshards
    fails, lines, traces, crashes = [], 0, 0, []

    def shard(k):
        lo, hi = k * size, min(len(behs), (k + 1) * size)
        if lo >= hi:
            return None
        tf = os.path.join(run, "trace_%d.ndjson" % k)
        pf = os.path.join(run, "progress_%d" % k)
        rc, out = sh([vh, "life", "-in", bfile, "-out", tf, "-scratch", os.path.join(run, "buckets_%d" % k),
                      "-from", str(lo), "-to", str(hi), "-progress", pf], timeout=3600)
        return k, lo, hi, rc, out, tf, pf
    with concurrent.futures.ThreadPoolExecutor(max_workers=nshards) as ex:
        results = [r for r in ex.map(shard, range(nshards)) if r]
    trace = os.path.join(run, "trace.ndjson")
    with open(trace, "w") as tw:
        for k, lo, hi, rc, out, tf, pf in results:
            m = re.search(r"LIFE behaviours=(\d+) lines=(\d+) abandoned=(\d+)", out)
            if not m:
                # the process died: attribute the crash to the behaviour and step it was executing
                prog = open(pf).read().split() if os.path.exists(pf) else ["?", "?"]
                crashes.append({"shard": k, "behaviour": prog[0], "step": prog[1], "tail": out[-600:]})
            if os.path.exists(tf):
                for line in open(tf):
                    if line.endswith("}\n"):
                        tw.write(line)
                        lines += 1
    rc, out = run_tlc("LifeTrace.tla", os.path.join(SPEC, "LifeTrace.cfg"), os.path.join(run, "meta_trace"),
                      env={"VERIF_TRACE": trace}, timeout=3600, java_opts="-Xss512m")
    if "No error has been found" not in out:
        raise Inconclusive("LifeTrace validation did not complete:\n" + "\n".join(l[:300] for l in out.splitlines() if l.startswith("Error"))[:1500])
    g, d = tlc_stats(out)
    if d - 1 != lines:
        raise Inconclusive("LifeTrace consumed %d of %d lines" % (d - 1, lines))
    out_f = []
    for t in fail_tuples(out):
        props = t[1]["$set"]
        tr, i = t[2], t[3]
        what = t[6]
        sig = {"op": t[5], "kind": str(what[0]), "detail": "/".join(str(x) for x in what[2:]) if what[0] != "open-handle-view" else str(what[2])}
        out_f.append({"props": props, "trace": tr, "step": i, "mode": "life", "op": t[5], "what": what, "sig": sig,
                      "expected": t[7], "observed": t[8], "ops": behs[tr - 1][:i] if 0 < tr <= len(behs) else []})
    for c in crashes:
        bi = int(c["behaviour"]) if c["behaviour"].isdigit() else 0
        st = int(c["step"]) if c["step"].isdigit() else 0
        out_f.append({"props": ["C20", "C16", "C13"], "trace": bi + 1, "step": st, "mode": "life", "op": "process-crash",
                      "what": ["crash"], "sig": {"op": "process-crash", "kind": "crash", "detail": re.sub(r"0x[0-9a-f]+|\d+", "N", c["tail"].strip().splitlines()[0] if c["tail"].strip() else "")[:80]},
                      "expected": "no crash", "observed": c["tail"], "ops": behs[bi][:st] if bi < len(behs) else []})
    res["fails"] = out_f
    res["traces"] = len(behs)
    res["lines"] = lines
    res["steps"] = lines
    res["distinct_cases"] = len({json.dumps(b, sort_keys=True) for b in behs})
    res["samples"] = [[{k: v for k, v in a.items() if v not in ("-", 0)} for a in b] for b in behs[:2]]
    res["crashes"] = len(crashes)
    res["wall_s"] = round(time.time() - t0, 1)
    return res
