#!/usr/bin/env python3
"""mkmeta.py <seeded id>...: write seeded/<id>/meta.json from the agent's report, the harvest confirmation and detection.txt."""
import json, os, sys
for sid in sys.argv[1:]:
    d = os.path.join(os.path.dirname(os.path.dirname(os.path.abspath(__file__))), "seeded", sid)
    am = json.load(open(os.path.join(d, "agent_meta.json")))
    det = [l.rstrip("\n") for l in open(os.path.join(d, "detection.txt"))] if os.path.exists(os.path.join(d, "detection.txt")) else []
    meta = {"property": am.get("property"), "summary": am.get("summary"), "needs": am.get("needs"), "files": am.get("files"),
            "confirmed": "tools/harvest.sh: in a scratch worktree of /repo HEAD the existing suite passes with the change, "
                         "TestSeededDemo fails with it and passes without it",
            "ran": ["tools/mutrun.sh %s <property>" % sid], "detection": det}
    extra = os.path.join(d, "note.txt")
    if os.path.exists(extra):
        meta["note"] = open(extra).read().strip()
    json.dump(meta, open(os.path.join(d, "meta.json"), "w"), indent=1)
    print(sid, det[:1])
