SPECIFICATION Spec
CONSTANTS
  Keys = {"k1", "k2"}
  MaxCas = 5
  MaxSteps = 7
  InvalidateOnForeign = FALSE
  OwnMark = TRUE
  ClockSeesForeign = TRUE
VIEW View
CHECK_DEADLOCK FALSE
INVARIANTS
  UpToDateIsExact
