SPECIFICATION Spec
CONSTANTS
  Buckets = {"m", "d"}
  K = 3
  MaxSteps = 8
  SeedOnOpen = FALSE
VIEW View
CHECK_DEADLOCK FALSE
PROPERTIES
  AboveBeforeRestart
