SPECIFICATION Spec
CONSTANTS
  Buckets = {"m", "d"}
  K = 3
  MaxSteps = 8
  SeedOnOpen = FALSE
  SeedFromBucketMark = TRUE
  MetaKeepsMark = TRUE
VIEW View
CHECK_DEADLOCK FALSE
INVARIANTS
  AboveBeforeRestart
