SPECIFICATION Spec
CONSTANTS
  Buckets = {"m", "d"}
  K = 3
  MaxSteps = 7
  SeedOnOpen = FALSE
  SeedFromBucketMark = TRUE
  MetaKeepsMark = TRUE
VIEW View
CHECK_DEADLOCK FALSE
INVARIANTS
  WitnessScripts
