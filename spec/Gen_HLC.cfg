SPECIFICATION GenSpec
CONSTANTS
  Buckets = {"m", "d"}
  K = 5
  MaxSteps = 14
  SeedOnOpen = TRUE
  SeedFromBucketMark = TRUE
  MetaKeepsMark = TRUE
CHECK_DEADLOCK FALSE
