SPECIFICATION GenSpec
CONSTANTS
  Keys = {"k1", "k2", "k3"}
  MaxCas = 60
  MaxSteps = 16
  InvalidateOnForeign = TRUE
  OwnMark = TRUE
  ClockSeesForeign = TRUE
CHECK_DEADLOCK FALSE
