SPECIFICATION Spec
CONSTANTS
  MaxOps = 3
  MaxT = 5
  TouchArms = TRUE
VIEW View
CHECK_DEADLOCK FALSE
INVARIANTS
  TimerCoversEarliest
  ExpiredSoon
