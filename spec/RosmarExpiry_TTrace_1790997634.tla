---- MODULE RosmarExpiry_TTrace_1790997634 ----
EXTENDS Sequences, TLCExt, Toolbox, Naturals, TLC, RosmarExpiry

_expression ==
    LET RosmarExpiry_TEExpression == INSTANCE RosmarExpiry_TEExpression
    IN RosmarExpiry_TEExpression!expression
----

_trace ==
    LET RosmarExpiry_TETrace == INSTANCE RosmarExpiry_TETrace
    IN RosmarExpiry_TETrace!trace
----

_inv ==
    ~(
        TLCGet("level") = Len(_TETrace)
        /\
        timer = ([armed |-> FALSE, next |-> 0])
        /\
        hist = (<<>>)
        /\
        docs = ([c0 |-> [k1 |-> [dl |-> 2, live |-> TRUE, row |-> TRUE], k2 |-> [dl |-> 0, live |-> FALSE, row |-> FALSE]], c1 |-> [k1 |-> [dl |-> 0, live |-> FALSE, row |-> FALSE], k2 |-> [dl |-> 0, live |-> FALSE, row |-> FALSE]]])
        /\
        nops = (2)
        /\
        now = (0)
        /\
        pk = ([op |-> "-", coll |-> "c0", key |-> "k1", e |-> 0, rel |-> FALSE])
    )
----

_init ==
    /\ nops = _TETrace[1].nops
    /\ docs = _TETrace[1].docs
    /\ now = _TETrace[1].now
    /\ pk = _TETrace[1].pk
    /\ hist = _TETrace[1].hist
    /\ timer = _TETrace[1].timer
----

_next ==
    /\ \E i,j \in DOMAIN _TETrace:
        /\ \/ /\ j = i + 1
              /\ i = TLCGet("level")
        /\ nops  = _TETrace[i].nops
        /\ nops' = _TETrace[j].nops
        /\ docs  = _TETrace[i].docs
        /\ docs' = _TETrace[j].docs
        /\ now  = _TETrace[i].now
        /\ now' = _TETrace[j].now
        /\ pk  = _TETrace[i].pk
        /\ pk' = _TETrace[j].pk
        /\ hist  = _TETrace[i].hist
        /\ hist' = _TETrace[j].hist
        /\ timer  = _TETrace[i].timer
        /\ timer' = _TETrace[j].timer

\* Uncomment the ASSUME below to write the states of the error trace
\* to the given file in Json format. Note that you can pass any tuple
\* to `JsonSerialize`. For example, a sub-sequence of _TETrace.
    \* ASSUME
    \*     LET J == INSTANCE Json
    \*         IN J!JsonSerialize("RosmarExpiry_TTrace_1790997634.json", _TETrace)

=============================================================================

 Note that you can extract this module `RosmarExpiry_TEExpression`
  to a dedicated file to reuse `expression` (the module in the 
  dedicated `RosmarExpiry_TEExpression.tla` file takes precedence 
  over the module `RosmarExpiry_TEExpression` below).

---- MODULE RosmarExpiry_TEExpression ----
EXTENDS Sequences, TLCExt, Toolbox, Naturals, TLC, RosmarExpiry

expression == 
    [
        \* To hide variables of the `RosmarExpiry` spec from the error trace,
        \* remove the variables below.  The trace will be written in the order
        \* of the fields of this record.
        nops |-> nops
        ,docs |-> docs
        ,now |-> now
        ,pk |-> pk
        ,hist |-> hist
        ,timer |-> timer
        
        \* Put additional constant-, state-, and action-level expressions here:
        \* ,_stateNumber |-> _TEPosition
        \* ,_nopsUnchanged |-> nops = nops'
        
        \* Format the `nops` variable as Json value.
        \* ,_nopsJson |->
        \*     LET J == INSTANCE Json
        \*     IN J!ToJson(nops)
        
        \* Lastly, you may build expressions over arbitrary sets of states by
        \* leveraging the _TETrace operator.  For example, this is how to
        \* count the number of times a spec variable changed up to the current
        \* state in the trace.
        \* ,_nopsModCount |->
        \*     LET F[s \in DOMAIN _TETrace] ==
        \*         IF s = 1 THEN 0
        \*         ELSE IF _TETrace[s].nops # _TETrace[s-1].nops
        \*             THEN 1 + F[s-1] ELSE F[s-1]
        \*     IN F[_TEPosition - 1]
    ]

=============================================================================



Parsing and semantic processing can take forever if the trace below is long.
 In this case, it is advised to uncomment the module below to deserialize the
 trace from a generated binary file.

\*
\*---- MODULE RosmarExpiry_TETrace ----
\*EXTENDS IOUtils, TLC, RosmarExpiry
\*
\*trace == IODeserialize("RosmarExpiry_TTrace_1790997634.bin", TRUE)
\*
\*=============================================================================
\*

---- MODULE RosmarExpiry_TETrace ----
EXTENDS TLC, RosmarExpiry

trace == 
    <<
    ([timer |-> [armed |-> FALSE, next |-> 0],hist |-> <<>>,docs |-> [c0 |-> [k1 |-> [dl |-> 0, live |-> FALSE, row |-> FALSE], k2 |-> [dl |-> 0, live |-> FALSE, row |-> FALSE]], c1 |-> [k1 |-> [dl |-> 0, live |-> FALSE, row |-> FALSE], k2 |-> [dl |-> 0, live |-> FALSE, row |-> FALSE]]],nops |-> 0,now |-> 0,pk |-> [op |-> "-", coll |-> "c0", key |-> "k1", e |-> 0, rel |-> FALSE]]),
    ([timer |-> [armed |-> FALSE, next |-> 0],hist |-> <<>>,docs |-> [c0 |-> [k1 |-> [dl |-> 0, live |-> TRUE, row |-> TRUE], k2 |-> [dl |-> 0, live |-> FALSE, row |-> FALSE]], c1 |-> [k1 |-> [dl |-> 0, live |-> FALSE, row |-> FALSE], k2 |-> [dl |-> 0, live |-> FALSE, row |-> FALSE]]],nops |-> 1,now |-> 0,pk |-> [op |-> "-", coll |-> "c0", key |-> "k1", e |-> 0, rel |-> FALSE]]),
    ([timer |-> [armed |-> FALSE, next |-> 0],hist |-> <<>>,docs |-> [c0 |-> [k1 |-> [dl |-> 2, live |-> TRUE, row |-> TRUE], k2 |-> [dl |-> 0, live |-> FALSE, row |-> FALSE]], c1 |-> [k1 |-> [dl |-> 0, live |-> FALSE, row |-> FALSE], k2 |-> [dl |-> 0, live |-> FALSE, row |-> FALSE]]],nops |-> 2,now |-> 0,pk |-> [op |-> "-", coll |-> "c0", key |-> "k1", e |-> 0, rel |-> FALSE]])
    >>
----


=============================================================================

---- CONFIG RosmarExpiry_TTrace_1790997634 ----
CONSTANTS
    MaxOps = 3
    MaxT = 5
    TouchArms = FALSE

INVARIANT
    _inv

CHECK_DEADLOCK
    \* CHECK_DEADLOCK off because of PROPERTY or INVARIANT above.
    FALSE

INIT
    _init

NEXT
    _next

CONSTANT
    _TETrace <- _trace

ALIAS
    _expression
=============================================================================
\* Generated on Sat Oct 03 03:20:35 UTC 2026