------------------------------ MODULE ShutTrace ------------------------------
(***************************************************************************)
(* Validation of the replayed shutdown / concurrent-open schedules (C20,   *)
(* C13): every behaviour of RosmarShutdown, replayed on real goroutines,   *)
(* must end like the specification's: all processes finished (no           *)
(* deadlock), no panic or process crash, no lock left held (an unrelated   *)
(* bucket can be opened, written and deleted afterwards), no feed          *)
(* goroutine left; after concurrent opens every handle works, also after   *)
(* the other one was closed, and the registry counts both.                 *)
(***************************************************************************)
EXTENDS Integers, Sequences, FiniteSets, TLC, Json, IOUtils

TraceLog == ndJsonDeserialize(IOEnv.VERIF_TRACE)
VARIABLES l, nfail
tvars == <<l, nfail>>
Fail(props, e, what, exp, got) == PrintT(<<"FAIL", props, e.tr, 0, "shut", e.scen, what, exp, got>>)
F(ok, props, e, what, exp, got) == IF ok THEN 0 ELSE IF Fail(props, e, what, exp, got) THEN 1 ELSE 1
IsOpen(e) == e.scen \in {"open1+open2", "closelast+open1"}
Panicked(e) == \E p \in DOMAIN e.res : Len(e.res[p]) >= 5 /\ SubSeq(e.res[p], 1, 5) = "panic"

TInit == l = 1 /\ nfail = 0
Step(e) ==
    LET props == IF IsOpen(e) THEN {"C20", "C13"} ELSE {"C20"} IN
    nfail' = nfail
      + F(e.outcome = "ok", props, e, <<e.outcome>>, "all processes finish", e.stuck)
      + F(~Panicked(e), props, e, <<"panic">>, "no panic", e.res)
      + F(e.outcome # "ok" \/ (e.other = "ok" /\ e.names = "ok"), props, e, <<"lock-left-held">>, "ok", <<e.other, e.names>>)
      + F(e.outcome # "ok" \/ e.feeds = 0, {"C20", "C16"}, e, <<"feed-goroutine-left">>, 0, e.feeds)
      + F(e.wgone # "still", {"C14"}, e, <<"deadline-introduced-during-expiry-run-not-honoured">>, "gone", e.wgone)
      + (IF e.scen = "open1+open2" /\ e.outcome = "ok"
         THEN F(e.res["open1"] = "ok" /\ e.res["open2"] = "ok" /\ e.h1 = "ok" /\ e.h2 = "ok", {"C13"}, e,
                <<"concurrent-opens">>, <<"ok", "ok", "ok", "ok">>, <<e.res, e.h1, e.h2, e.count>>)
         ELSE 0)
      + (IF e.scen = "closelast+open1" /\ e.outcome = "ok"
         THEN F(e.res["open1"] = "ok" /\ e.h1 = "ok", {"C13"}, e, <<"open-during-close">>, <<"ok", "ok">>, <<e.res, e.h1, e.count>>)
         ELSE 0)
TNext == /\ l <= Len(TraceLog) /\ l' = l + 1 /\ Step(TraceLog[l])
TSpec == TInit /\ [][TNext]_tvars
Accepted == TLCGet("stats").diameter - 1 = Len(TraceLog)
=============================================================================
