SPECIFICATION Spec
CONSTANTS
  Clients = {}
  Kinds = {"set"}
  HasFeed = TRUE
  FeedBackfill = TRUE
  Stops = 1
  InitDoc = TRUE
  FeedInit = "start"
  DeliverLast = FALSE
  EnterGate = FALSE
  PostUnderLock = FALSE
  RegisterAtomic = FALSE
CHECK_DEADLOCK FALSE
INVARIANTS
  PrintSchedules
