SPECIFICATION Spec
CONSTANTS
  Buckets = {"m", "d"}
  K = 3
  MaxSteps = 7
  SeedOnOpen = TRUE
  SeedFromBucketMark = FALSE
  MetaKeepsMark = TRUE
VIEW View
CHECK_DEADLOCK FALSE
INVARIANTS
  WitnessScripts
