SPECIFICATION Spec
CONSTANTS
  Procs = {"timer", "cad"}
  StopFirst = FALSE
VIEW View
INVARIANTS
  NoPanic
  NoLockLeft

