SPECIFICATION Spec
CONSTANTS
  Procs = {"timer", "cad", "writer"}
  StopFirst = TRUE
VIEW View
INVARIANTS
  NoPanic
  NoLockLeft

