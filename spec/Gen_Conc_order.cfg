SPECIFICATION Spec
CONSTANTS
  Clients = {"p1", "p2"}
  Kinds = {"set", "update", "incr", "remove"}
  HasFeed = TRUE
  FeedBackfill = FALSE
  Stops = 0
  InitDoc = TRUE
  FeedInit = "running"
  DeliverLast = TRUE
  EnterGate = FALSE
  PostUnderLock = FALSE
  RegisterAtomic = FALSE
CHECK_DEADLOCK FALSE
INVARIANTS
  PrintSchedules
