--------------------------- MODULE RosmarLifeOps ---------------------------
(***************************************************************************)
(* Bucket handle lifecycle (C13), feed termination (C16) and the           *)
(* sequential part of shutdown safety (C20): the process-global registry,  *)
(* handles, stores (in-memory / on-disk), collections and feeds.           *)
(*                                                                         *)
(* The whole state is one record S; Apply(S, act) gives the successor and  *)
(* Expect(S, act) the result class the call must report.  RosmarLife's     *)
(* Next applies every enabled action (Leg A: invariants; Leg B: TLC        *)
(* simulation prints action lists that the Go harness executes);           *)
(* LifeTrace re-uses Apply/Expect to validate what the real code did.      *)
(***************************************************************************)
EXTENDS Integers, Sequences, FiniteSets, TLC, Json

Names   == {"A", "B"}
Urls    == {"mem", "mp", "d1", "d2"}
MemUrls == {"mem", "mp"}   \* in memory: the plain URL, and a memory URL that carries a path (the directory of the OTHER name's
                           \* bucket at d1: nothing of an in-memory bucket may ever touch the disk)
Handles == {"h1", "h2", "h3", "h4"}
FeedIds == {"f1", "f2"}
Colls   == {"c0", "c1", "c2", "c3"}    \* c1 can be dropped and re-created; c2 and c3 are created on first use and never
                                        \* dropped; c3 has the same collection name as c1, in another scope
Modes   == {"CreateOrOpen", "CreateNew", "ReOpenExisting"}

NoStore == [exists |-> FALSE, docs |-> [c \in Colls |-> {}], dd |-> FALSE, c1 |-> FALSE, dir |-> FALSE]
(* dir: the bucket's directory exists although there is no bucket in it (someone else created it): CreateNew is documented *)
(* to fail "if the directory exists"; the other modes do not care                                                        *)
NoHandle == [st |-> "free", n |-> "-", u |-> "-", stale |-> FALSE, ep |-> 0]   \* ep: the registration it belongs to
NoFeed == [st |-> "none", n |-> "-", u |-> "-", colls |-> {}, kind |-> "-", done |-> FALSE, loose |-> FALSE]
(* loose: started through a handle whose cached collection c1 may be the dropped one - what it listens to is not specified *)

(* A registration (epoch) begins when a name that is not registered is opened and ends when the bucket is deleted or *)
(* the last handle of an on-disk bucket is closed; the handles opened during it share one database object.          *)
Init0 == [reg   |-> [n \in Names |-> [url |-> "", cnt |-> 0, ep |-> 0]],
          store |-> [n \in Names |-> [u \in Urls |-> NoStore]],
          hs    |-> [h \in Handles |-> NoHandle],
          fd    |-> [f \in FeedIds |-> NoFeed],
          wid   |-> 0,
          nep   |-> 0]

Registered(S, n) == S.reg[n].url # ""
OpenHandlesOf(S, n) == {h \in Handles : S.hs[h].st = "open" /\ S.hs[h].n = n}

(* ---- result classes ---------------------------------------------------- *)
ExpectOpen(S, n, u, mode) ==
    IF Registered(S, n)
    THEN IF mode = "CreateNew" THEN (IF u # S.reg[n].url THEN "refused" ELSE "exists")   \* both reasons apply: either refusal
         ELSE IF u # S.reg[n].url THEN "otherurl" ELSE "ok"
    ELSE IF u \in MemUrls THEN (IF mode = "ReOpenExisting" THEN "notexist" ELSE "ok")
         ELSE IF S.store[n][u].exists THEN (IF mode = "CreateNew" THEN "exists" ELSE "ok")
         ELSE (IF mode = "ReOpenExisting" THEN "notexist" ELSE IF mode = "CreateNew" /\ S.store[n][u].dir THEN "exists" ELSE "ok")

(* feeds of bucket n end (their done channel closes) *)
EndFeedsOf(S, n) ==
    [f \in FeedIds |-> IF S.fd[f].st = "running" /\ S.fd[f].n = n
                       THEN [S.fd[f] EXCEPT !.st = "ended", !.done = TRUE] ELSE S.fd[f]]

Act(kind, h, n, u, mode, c, f, fk) == [kind |-> kind, h |-> h, n |-> n, u |-> u, mode |-> mode, c |-> c, f |-> f, fk |-> fk, id |-> 0, force |-> FALSE]

(* the result class a call must report; "any" = the statements do not say *)
Expect(S, a) ==
    LET hd == S.hs[a.h] IN
    CASE a.kind = "Open" -> ExpectOpen(S, a.n, a.u, a.mode)
      [] a.kind = "Close" -> "ok"
      [] a.kind = "CloseAndDelete" -> IF hd.st \in {"open", "closed", "dead"} /\ Registered(S, hd.n) /\ S.reg[hd.n].ep = hd.ep THEN "ok" ELSE "any"
      [] a.kind = "Write" ->
            IF hd.st = "open" THEN (IF hd.stale /\ a.c = "c1" THEN "any" ELSE "ok")
            ELSE IF hd.st = "closed" THEN "closed" ELSE "any"
      [] a.kind = "Drop" -> IF hd.st = "open" THEN "ok" ELSE IF hd.st = "closed" THEN "closed" ELSE "any"
      [] a.kind = "PutDDoc" -> IF hd.st = "open" THEN (IF hd.stale THEN "any" ELSE "ok") ELSE IF hd.st = "closed" THEN "closed" ELSE "any"
      [] a.kind = "StartFeed" -> IF hd.st = "open" THEN "ok" ELSE IF hd.st = "closed" THEN "closed" ELSE "any"
      [] a.kind = "StopFeed" -> "ok"
      [] OTHER -> "any"

(* which running feeds must receive exactly one event for this action *)
Receivers(S, a) ==
    IF a.kind = "Write" /\ S.hs[a.h].st = "open" /\ ~(S.hs[a.h].stale /\ a.c = "c1" /\ ~a.force)
    THEN {f \in FeedIds : S.fd[f].st = "running" /\ S.fd[f].n = S.hs[a.h].n /\ a.c \in S.fd[f].colls}
    ELSE {}

Apply(S, a) ==
    LET hd == S.hs[a.h] IN
    CASE a.kind = "Open" ->
           IF ExpectOpen(S, a.n, a.u, a.mode) # "ok" THEN S
           ELSE LET ep == IF Registered(S, a.n) THEN S.reg[a.n].ep ELSE S.nep + 1 IN
                [S EXCEPT !.reg[a.n] = [url |-> a.u, cnt |-> S.reg[a.n].cnt + 1, ep |-> ep],
                          !.nep = IF Registered(S, a.n) THEN @ ELSE @ + 1,
                          !.store[a.n][a.u] = IF S.store[a.n][a.u].exists THEN S.store[a.n][a.u]
                                               ELSE [exists |-> TRUE, docs |-> [c \in Colls |-> {}], dd |-> FALSE, c1 |-> FALSE, dir |-> FALSE],
                          !.hs[a.h] = [st |-> "open", n |-> a.n, u |-> a.u, stale |-> FALSE, ep |-> ep]]
      [] a.kind = "Close" ->
           IF hd.st # "open" THEN S      \* closing a closed (or dead) handle again changes nothing
           ELSE LET cnt == S.reg[hd.n].cnt - 1
                    last == cnt = 0 /\ hd.u \notin MemUrls IN
                [S EXCEPT !.hs[a.h].st = "closed",
                          !.reg[hd.n] = IF last THEN [url |-> "", cnt |-> 0, ep |-> 0] ELSE [url |-> S.reg[hd.n].url, cnt |-> cnt, ep |-> S.reg[hd.n].ep],
                          !.fd = IF last THEN EndFeedsOf(S, hd.n) ELSE S.fd]
      [] a.kind = "CloseAndDelete" ->
           \* through any handle, open or closed, of the registration that is current: the bucket is deleted - the data, the
           \* registry entry, every feed; the other handles are dead.  Through a handle of an earlier registration while
           \* the name is registered again: nothing (the bucket that exists now is not its business).  While the name is
           \* not registered: the data at the handle's URL, if any, is removed.
           IF hd.st \notin {"open", "closed", "dead"} THEN S
           ELSE IF Registered(S, hd.n) /\ S.reg[hd.n].ep = hd.ep THEN
                [S EXCEPT !.reg[hd.n] = [url |-> "", cnt |-> 0, ep |-> 0],
                          !.store[hd.n][hd.u] = NoStore,
                          !.hs = [h \in Handles |-> IF S.hs[h].n = hd.n /\ S.hs[h].ep = hd.ep /\ S.hs[h].st \in {"open", "closed"}
                                                    THEN [S.hs[h] EXCEPT !.st = IF h = a.h \/ S.hs[h].st = "closed" THEN "closed" ELSE "dead"]
                                                    ELSE S.hs[h]],
                          !.fd = EndFeedsOf(S, hd.n)]
           ELSE IF Registered(S, hd.n) THEN S
           ELSE [S EXCEPT !.store[hd.n][hd.u] = IF hd.u \in MemUrls THEN @ ELSE NoStore,
                          !.hs[a.h].st = IF hd.st = "open" THEN "closed" ELSE hd.st]
      [] a.kind = "Write" ->
           IF hd.st # "open" \/ (hd.stale /\ a.c = "c1" /\ ~a.force) THEN S
           ELSE [S EXCEPT !.store[hd.n][hd.u].docs[a.c] = @ \cup {a.id}, !.wid = S.wid + 1,
                          !.store[hd.n][hd.u].c1 = (@ \/ a.c = "c1")]      \* the collection is created on first use
      [] a.kind = "Drop" ->       \* DropDataStore(c1): its documents and feeds go; other handles' cached collection is stale
           IF hd.st # "open" THEN S
           ELSE [S EXCEPT !.store[hd.n][hd.u].docs["c1"] = {},
                          !.store[hd.n][hd.u].dd = FALSE,      \* the collection's design documents go with it
                          !.store[hd.n][hd.u].c1 = FALSE,
                          !.hs = [h \in Handles |-> IF h # a.h /\ S.hs[h].n = hd.n /\ S.hs[h].st = "open"
                                                    THEN [S.hs[h] EXCEPT !.stale = TRUE] ELSE S.hs[h]],
                          !.fd = [f \in FeedIds |->
                                    IF S.fd[f].st = "running" /\ S.fd[f].n = hd.n /\ "c1" \in S.fd[f].colls
                                    THEN IF S.fd[f].colls = {"c1"} THEN [S.fd[f] EXCEPT !.st = "ended", !.done = TRUE]
                                         ELSE [S.fd[f] EXCEPT !.colls = @ \ {"c1"}]
                                    ELSE S.fd[f]]]
      [] a.kind = "StartFeed" ->
           IF hd.st # "open" THEN S
           ELSE [S EXCEPT !.store[hd.n][hd.u].c1 = (@ \/ a.fk \in {"multi", "mdump"} \/ (a.fk # "bucket" /\ a.c = "c1")),
                          !.fd[a.f] =
                    LET lo == hd.stale /\ (a.fk \in {"multi", "mdump"} \/ (a.fk # "bucket" /\ a.c = "c1")) IN
                    IF a.fk \in {"dump", "dumpnb", "mdump"}
                    THEN [st |-> "ended", n |-> hd.n, u |-> hd.u, colls |-> IF a.fk = "mdump" THEN {"c0", "c1", "c3"} ELSE {a.c},
                          kind |-> a.fk, done |-> TRUE, loose |-> lo]
                    ELSE [st |-> "running", n |-> hd.n, u |-> hd.u,
                          colls |-> IF a.fk = "multi" THEN {"c0", "c1", "c3"} ELSE IF a.fk = "bucket" THEN {"c0"} ELSE {a.c},
                          kind |-> a.fk, done |-> FALSE, loose |-> lo]]
      [] a.kind = "PutDDoc" ->     \* a design document on collection c1
           IF hd.st # "open" \/ (hd.stale /\ ~a.force) THEN S
           ELSE [S EXCEPT !.store[hd.n][hd.u].dd = TRUE, !.store[hd.n][hd.u].c1 = TRUE]
      [] a.kind = "StopFeed" ->
           IF S.fd[a.f].st = "running" THEN [S EXCEPT !.fd[a.f].st = "ended", !.fd[a.f].done = TRUE] ELSE S
      [] OTHER -> S

(* actions a client may take in state S (a handle slot is used once; a feed id is started once) *)
Enabled(S) ==
    {Act("Open", h, n, u, m, "-", "-", "-") : h \in {x \in Handles : S.hs[x].st = "free"}, n \in Names, u \in Urls, m \in Modes}
    \cup {Act("Close", h, "-", "-", "-", "-", "-", "-") : h \in {x \in Handles : S.hs[x].st \in {"open", "closed", "dead"}}}
    \cup {Act("CloseAndDelete", h, "-", "-", "-", "-", "-", "-") : h \in {x \in Handles : S.hs[x].st \in {"open", "closed", "dead"}}}
    \cup {Act("Write", h, "-", "-", "-", c, "-", "-") : h \in {x \in Handles : S.hs[x].st \in {"open", "closed", "dead"}}, c \in Colls}
    \cup {Act("Drop", h, "-", "-", "-", "c1", "-", "-") : h \in {x \in Handles : S.hs[x].st = "open"}}
    \cup {Act("PutDDoc", h, "-", "-", "-", "c1", "-", "-") : h \in {x \in Handles : S.hs[x].st = "open"}}
    \cup {Act("StartFeed", h, "-", "-", "-", c, f, fk) : h \in {x \in Handles : S.hs[x].st \in {"open", "closed"}},
              c \in Colls, f \in {x \in FeedIds : S.fd[x].st = "none"}, fk \in {"live", "dump", "dumpnb", "multi", "mdump", "bucket", "ckpt"}}
    \* through a handle whose bucket has been deleted through another one: a feed that has to read the store first cannot
    \* start (what a feed without a backfill does there is not specified, so none is started)
    \cup {Act("StartFeed", h, "-", "-", "-", c, f, fk) : h \in {x \in Handles : S.hs[x].st = "dead"},
              c \in Colls, f \in {x \in FeedIds : S.fd[x].st = "none"}, fk \in {"dump", "mdump", "ckpt"}}
    \cup {Act("StopFeed", "h1", "-", "-", "-", "-", f, "-") : f \in {x \in FeedIds : S.fd[x].st = "running"}}

=============================================================================
