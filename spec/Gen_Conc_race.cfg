SPECIFICATION Spec
CONSTANTS
  Clients = {"p1", "p2"}
  Kinds = {"set", "casw", "update", "incr", "get", "remove"}
  HasFeed = FALSE
  FeedBackfill = FALSE
  Stops = 0
  InitDoc = TRUE
  FeedInit = "start"
  DeliverLast = TRUE
  EnterGate = TRUE
  PostUnderLock = FALSE
  RegisterAtomic = FALSE
CHECK_DEADLOCK FALSE
INVARIANTS
  PrintSchedules
