----------------------------- MODULE RosmarExpiry -----------------------------
(***************************************************************************)
(* The expiry mechanism: documents with deadlines, the bucket's single     *)
(* timer, discrete time.  The timer is armed from the event of a write     *)
(* (only when that is earlier than what it is armed for), re-armed from    *)
(* the minimum deadline after it fires and when a bucket is reopened.      *)
(* TouchArms = TRUE is the intended design; FALSE is the code before its   *)
(* repair (a deadline introduced by Touch never armed the timer).          *)
(***************************************************************************)
EXTENDS RosmarExpiryOps, Json

CONSTANTS MaxOps, MaxT, TouchArms
VARIABLES docs, timer, now, nops, hist, pk
vars == <<docs, timer, now, nops, hist, pk>>

Init == /\ docs = [c \in EColls |-> [k \in EKeys |-> NoDoc]]
        /\ timer = [armed |-> FALSE, next |-> 0]
        /\ now = 0 /\ nops = 0 /\ hist = <<>>
        /\ pk = [op |-> "-", coll |-> "c0", key |-> "k1", e |-> 0, rel |-> FALSE]

Arm(t, e) == IF e > 0 /\ (~t.armed \/ e < t.next) THEN [armed |-> TRUE, next |-> e] ELSE t
Rearm(ds) == IF Deadlines(ds) = {} THEN [armed |-> FALSE, next |-> 0] ELSE [armed |-> TRUE, next |-> MinOf(Deadlines(ds))]

Do(op, c, k, e) ==
    LET d == docs[c][k]
        nd == After(d, op, e)
        newdocs == AfterAll(docs, op, c, k, e)
        event == op # "Recreate" /\ nd # d /\ (op # "Touch" \/ TouchArms) IN
    /\ now = 0 /\ nops < MaxOps
    /\ docs' = newdocs
    /\ timer' = IF op = "Reopen" THEN Rearm(docs) ELSE IF event THEN Arm(timer, nd.dl) ELSE timer
    /\ nops' = nops + 1
    /\ now' = now

Tick == /\ now < MaxT
        /\ ~(timer.armed /\ timer.next <= now)       \* an armed timer fires before time moves on
        /\ now' = now + 1
        /\ UNCHANGED <<docs, timer, nops>>
Fire == /\ timer.armed /\ timer.next <= now
        /\ LET nd == [c \in EColls |-> [k \in EKeys |->
                        IF docs[c][k].dl > 0 /\ docs[c][k].dl <= now THEN [live |-> FALSE, dl |-> 0, row |-> TRUE] ELSE docs[c][k]]] IN
           docs' = nd /\ timer' = Rearm(nd)
        /\ UNCHANGED <<now, nops>>

Next == /\ \/ \E op \in EOps, c \in EColls, k \in EKeys, e \in {0, 2, 3} :
                  Do(op, c, k, e) /\ hist' = Append(hist, [op |-> op, coll |-> c, key |-> k, e |-> e, rel |-> FALSE])
           \/ (Tick /\ hist' = hist) \/ (Fire /\ hist' = hist)
        /\ UNCHANGED pk
Spec == Init /\ [][Next]_vars
View == <<docs, timer, now, nops>>

(* C14 *)
TimerCoversEarliest == Deadlines(docs) # {} => (timer.armed /\ timer.next <= MinOf(Deadlines(docs)))
ExpiredSoon == \A c \in EColls, k \in EKeys : (docs[c][k].live /\ docs[c][k].dl > 0) => docs[c][k].dl >= now
(* witness configuration: every behaviour that breaks the invariant is printed as a script for the real code *)
WitnessScripts == TimerCoversEarliest \/ (PrintT("WITNESS " \o ToJson(hist)) /\ FALSE)
NeverExpires == \A c \in EColls, k \in EKeys : TRUE

(* behaviour generation: random scripts of operations (all at time 0) *)
GenNext ==
    /\ nops < MaxOps
    \* (every other deletion is followed by an expiry-preserving write of the same key that names an expiry: the key's
    \*  expiry - none - is what must stay in force)
    /\ pk' = IF Len(hist) > 0 /\ hist[Len(hist)].op = "Delete" /\ RandomElement(1..2) = 1
             THEN [op |-> "SetPres", coll |-> hist[Len(hist)].coll, key |-> hist[Len(hist)].key, e |-> RandomElement({2, 3}), rel |-> RandomElement(1..4) = 1]
             ELSE [op |-> RandomElement(EOps), coll |-> RandomElement(EColls), key |-> RandomElement(IF RandomElement(1..10) <= 7 THEN {"k1"} ELSE EKeys),
                   e |-> IF RandomElement(1..12) = 1 THEN 8 ELSE RandomElement({0, 2, 2, 3, 4}), rel |-> RandomElement(1..4) = 1]
    /\ Do(pk'.op, pk'.coll, pk'.key, pk'.e)
    /\ hist' = Append(hist, pk')
    /\ (nops' < MaxOps \/ PrintT("BEHAVIOUR " \o ToJson(hist')))
GenSpec == Init /\ [][GenNext]_vars
=============================================================================
