SPECIFICATION Spec
CONSTANTS
  Buckets = {"m", "d"}
  K = 3
  MaxSteps = 7
  SeedOnOpen = TRUE
  SeedFromBucketMark = TRUE
  MetaKeepsMark = FALSE
VIEW View
CHECK_DEADLOCK FALSE
INVARIANTS
  WitnessScripts
