SPECIFICATION Spec
CONSTANTS
  Buckets = {"m", "d"}
  K = 3
  MaxSteps = 8
  SeedOnOpen = TRUE
  SeedFromBucketMark = TRUE
  MetaKeepsMark = FALSE
VIEW View
CHECK_DEADLOCK FALSE
INVARIANTS
  AboveBeforeRestart
