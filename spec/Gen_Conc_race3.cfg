SPECIFICATION Spec
CONSTANTS
  Clients = {"p1", "p2", "p3"}
  Kinds = {"update", "incr", "casw", "remove"}
  HasFeed = FALSE
  FeedBackfill = FALSE
  Stops = 0
  InitDoc = TRUE
  FeedInit = "start"
  DeliverLast = TRUE
  EnterGate = FALSE
  PostUnderLock = FALSE
  RegisterAtomic = FALSE
CHECK_DEADLOCK FALSE
INVARIANTS
  PrintSchedules
