SPECIFICATION Spec
CONSTANTS
  Clients = {"p1", "p2", "p3"}
  Kinds = {"set", "casw", "update", "incr", "get", "remove"}
  HasFeed = TRUE
  FeedBackfill = TRUE
  Stops = 1
  InitDoc = TRUE
  FeedInit = "start"
  DeliverLast = FALSE
  EnterGate = FALSE
  PostUnderLock = TRUE
  RegisterAtomic = TRUE
VIEW View
CHECK_DEADLOCK FALSE
INVARIANTS
  FeedCasOrdered
  FinalVersionDelivered
  CheckpointNotAboveDelivered
  AtMostOneReplaces
  NoLostUpdate
  UpdatesApplied
