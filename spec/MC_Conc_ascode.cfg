SPECIFICATION Spec
CONSTANTS
  Clients = {"p1", "p2"}
  Kinds = {"set", "casw", "update", "incr", "get", "remove"}
  HasFeed = TRUE
  FeedBackfill = TRUE
  Stops = 1
  InitDoc = TRUE
  FeedInit = "start"
  DeliverLast = FALSE
  EnterGate = FALSE
  PostUnderLock = FALSE
  RegisterAtomic = FALSE
VIEW View
CHECK_DEADLOCK FALSE
INVARIANTS
  FeedCasOrdered
  FinalVersionDelivered
  CheckpointNotAboveDelivered
  AtMostOneReplaces
  NoLostUpdate
  UpdatesApplied
