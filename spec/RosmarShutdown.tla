--------------------------- MODULE RosmarShutdown ---------------------------
(***************************************************************************)
(* Shutdown safety (C20) and concurrent open/close (C13) at lock level.    *)
(* Locks: R = registry lock, M = bucket mutex, E = expiry-manager mutex,   *)
(* F = feed-order mutex.  Each process is a straight-line program of       *)
(* acquire / release / gate / effect instructions taken from the code's    *)
(* critical sections; a gate is a point where the gate scheduler can park  *)
(* the real goroutine.  TLC checks that no reachable state is a deadlock   *)
(* and that the timer callback never touches a closed database; the        *)
(* sequences of gate crossings of all behaviours are the schedules that    *)
(* are replayed on the real goroutines.                                    *)
(*                                                                         *)
(* StopFirst = TRUE is the intended design: CloseAndDelete stops the       *)
(* expiry manager before taking the bucket mutex, and a stopped manager's  *)
(* callback returns at once.  FALSE is the code before its repair          *)
(* (witness: deadlock, and a fired callback running after the close).      *)
(***************************************************************************)
EXTENDS Integers, Sequences, FiniteSets, TLC, Json

CONSTANTS Procs,       \* subset of {"timer", "cad", "closelast", "writer", "open1", "open2", "viewbg", "ddoc"}
          StopFirst

Locks == {"R", "M", "E", "F", "C"}      \* C: the mutex of the handle's collection object (taken by close() under M)

A(l) == <<"acq", l>>
Rl(l) == <<"rel", l>>
G(n) == <<"gate", n>>
X(n) == <<"eff", n>>

Program(p) ==
    CASE p = "timer" ->     \* expiryManager.runExpiry -> doExpiration -> Delete of every due document -> re-arm
           <<G("exp.fire"), A("E"), G("exp.locked"), X("checkstopped"),
             A("M"), Rl("M"), X("usedb"),                 \* nextExpiration / ListDataStores through db()
             A("F"), A("M"), X("usedb"), Rl("M"), Rl("F"), \* Delete: feed order mutex, then the transaction
             A("M"), Rl("M"), X("usedb"),                 \* the timer is armed again from the earliest remaining deadline
             G("exp.done"),                               \* ... and only then does the callback let go of the expiry mutex
             Rl("E")>>
      [] p = "cad" ->       \* Bucket.CloseAndDelete
           IF StopFirst
           THEN <<G("closedelete.enter"), A("E"), X("stop"), Rl("E"), A("M"), G("closedelete.locked"),
                  A("E"), Rl("E"), A("C"), Rl("C"), X("closedb"), A("R"), Rl("R"), Rl("M")>>
           ELSE <<G("closedelete.enter"), A("M"), G("closedelete.locked"), A("E"), X("stop"), Rl("E"),
                  A("C"), Rl("C"), X("closedb"), A("R"), Rl("R"), Rl("M")>>
      [] p = "closelast" -> \* Bucket.Close of the last handle of an on-disk bucket
           <<G("op.start"), A("M"), Rl("M"), A("R"), A("E"), X("stop"), Rl("E"), X("closedb"), Rl("R"), G("close.unregistered")>>
      [] p = "writer" ->    \* a regular write: commit + post under F, then arm the timer
           <<G("op.start"), A("F"), A("M"), X("usedb-or-closed"), Rl("M"), G("post.before"), A("M"), Rl("M"), Rl("F"), A("E"), Rl("E")>>
      [] p \in {"open1", "open2"} -> \* OpenBucket of a bucket that is on disk but not registered
           <<G("op.start"), A("R"), Rl("R"), G("open.cachemiss"), G("open.beforeregister"), A("R"), X("register"), Rl("R")>>
      [] p = "ddoc" ->      \* PutDDoc through the same handle: one transaction under M (it takes no other lock before M)
           <<G("op.start"), G("txn.enter"), A("M"), X("usedb-or-closed"), Rl("M")>>
      [] p = "viewbg" ->    \* the background index update of a view query with stale=updateAfter
           <<G("view.updateafter"), A("M"), X("usedb-or-closed"), Rl("M")>>
      [] OTHER -> <<>>

VARIABLES pc,        \* [Procs -> index of the next instruction]
          owner,     \* [Locks -> process holding it, or "-"]
          stopped, dbClosed, panicked, skip,
          sched
vars == <<pc, owner, stopped, dbClosed, panicked, skip, sched>>

Init == /\ pc = [p \in Procs |-> 1]
        /\ owner = [l \in Locks |-> "-"]
        /\ stopped = FALSE /\ dbClosed = FALSE /\ panicked = FALSE
        /\ skip = [p \in Procs |-> FALSE]
        /\ sched = <<>>

Done(p) == pc[p] > Len(Program(p))

Step(p) ==
    /\ ~Done(p)
    /\ LET ins == Program(p)[pc[p]] IN
       \* a stopped manager's callback returns at once: the rest of its program only releases E
       IF skip[p] /\ ~(ins[1] = "rel" /\ ins[2] = "E")
       THEN /\ pc' = [pc EXCEPT ![p] = @ + 1] /\ UNCHANGED <<owner, stopped, dbClosed, panicked, skip, sched>>
       ELSE
       CASE ins[1] = "acq" -> /\ owner[ins[2]] = "-"
                              /\ owner' = [owner EXCEPT ![ins[2]] = p]
                              /\ pc' = [pc EXCEPT ![p] = @ + 1]
                              /\ UNCHANGED <<stopped, dbClosed, panicked, skip, sched>>
         [] ins[1] = "rel" -> /\ owner' = [owner EXCEPT ![ins[2]] = "-"]
                              /\ pc' = [pc EXCEPT ![p] = @ + 1]
                              /\ UNCHANGED <<stopped, dbClosed, panicked, skip, sched>>
         [] ins[1] = "gate" -> /\ sched' = Append(sched, p)
                               /\ pc' = [pc EXCEPT ![p] = @ + 1]
                               /\ UNCHANGED <<owner, stopped, dbClosed, panicked, skip>>
         [] ins[1] = "eff" ->
              /\ pc' = [pc EXCEPT ![p] = @ + 1]
              /\ stopped' = IF ins[2] = "stop" THEN TRUE ELSE stopped
              /\ dbClosed' = IF ins[2] = "closedb" THEN TRUE ELSE dbClosed
              /\ skip' = IF ins[2] = "checkstopped" /\ StopFirst /\ stopped THEN [skip EXCEPT ![p] = TRUE] ELSE skip
              /\ panicked' = IF ins[2] = "usedb" /\ dbClosed THEN TRUE ELSE panicked   \* "Error expiring docs: database is closed"
              /\ UNCHANGED <<owner, sched>>

AllDone == \A p \in Procs : Done(p)
Next == (\E p \in Procs : Step(p)) \/ (AllDone /\ UNCHANGED vars)
Spec == Init /\ [][Next]_vars
View == <<pc, owner, stopped, dbClosed, panicked, skip>>

NoPanic == ~panicked
NoLockLeft == AllDone => \A l \in Locks : owner[l] = "-"
PrintSchedules == AllDone => PrintT("SCHEDULE " \o ToJson([procs |-> Procs, sched |-> sched]))
=============================================================================
