---- MODULE RosmarConc_TTrace_1791002900 ----
EXTENDS Sequences, TLCExt, RosmarConc, Toolbox, Naturals, TLC

_expression ==
    LET RosmarConc_TEExpression == INSTANCE RosmarConc_TEExpression
    IN RosmarConc_TEExpression!expression
----

_trace ==
    LET RosmarConc_TETrace == INSTANCE RosmarConc_TETrace
    IN RosmarConc_TETrace!trace
----

_inv ==
    ~(
        TLCGet("level") = Len(_TETrace)
        /\
        ckpt = (0)
        /\
        okcount = ([p1 |-> 1, p2 |-> 0])
        /\
        lastRun = (<<2, 2>>)
        /\
        delivered = (<<2, 2>>)
        /\
        clock = (2)
        /\
        prog = ([p1 |-> "set", p2 |-> "set"])
        /\
        seen = ([p1 |-> [cas |-> 1, val |-> 0], p2 |-> [cas |-> 1, val |-> 0]])
        /\
        pc = ([p1 |-> "done", p2 |-> "start"])
        /\
        sched = (<<"p1", "f", "f", "f", "run", "run", "run", "p1", "run">>)
        /\
        fpc = ("running")
        /\
        doc = ([cas |-> 2, val |-> 100, live |-> TRUE])
        /\
        stops = (0)
        /\
        ckpend = (0)
        /\
        queue = (<<>>)
        /\
        pend = ([p1 |-> 0, p2 |-> 0])
    )
----

_init ==
    /\ prog = _TETrace[1].prog
    /\ doc = _TETrace[1].doc
    /\ stops = _TETrace[1].stops
    /\ lastRun = _TETrace[1].lastRun
    /\ delivered = _TETrace[1].delivered
    /\ fpc = _TETrace[1].fpc
    /\ pend = _TETrace[1].pend
    /\ clock = _TETrace[1].clock
    /\ pc = _TETrace[1].pc
    /\ sched = _TETrace[1].sched
    /\ ckpt = _TETrace[1].ckpt
    /\ okcount = _TETrace[1].okcount
    /\ queue = _TETrace[1].queue
    /\ seen = _TETrace[1].seen
    /\ ckpend = _TETrace[1].ckpend
----

_next ==
    /\ \E i,j \in DOMAIN _TETrace:
        /\ \/ /\ j = i + 1
              /\ i = TLCGet("level")
        /\ prog  = _TETrace[i].prog
        /\ prog' = _TETrace[j].prog
        /\ doc  = _TETrace[i].doc
        /\ doc' = _TETrace[j].doc
        /\ stops  = _TETrace[i].stops
        /\ stops' = _TETrace[j].stops
        /\ lastRun  = _TETrace[i].lastRun
        /\ lastRun' = _TETrace[j].lastRun
        /\ delivered  = _TETrace[i].delivered
        /\ delivered' = _TETrace[j].delivered
        /\ fpc  = _TETrace[i].fpc
        /\ fpc' = _TETrace[j].fpc
        /\ pend  = _TETrace[i].pend
        /\ pend' = _TETrace[j].pend
        /\ clock  = _TETrace[i].clock
        /\ clock' = _TETrace[j].clock
        /\ pc  = _TETrace[i].pc
        /\ pc' = _TETrace[j].pc
        /\ sched  = _TETrace[i].sched
        /\ sched' = _TETrace[j].sched
        /\ ckpt  = _TETrace[i].ckpt
        /\ ckpt' = _TETrace[j].ckpt
        /\ okcount  = _TETrace[i].okcount
        /\ okcount' = _TETrace[j].okcount
        /\ queue  = _TETrace[i].queue
        /\ queue' = _TETrace[j].queue
        /\ seen  = _TETrace[i].seen
        /\ seen' = _TETrace[j].seen
        /\ ckpend  = _TETrace[i].ckpend
        /\ ckpend' = _TETrace[j].ckpend

\* Uncomment the ASSUME below to write the states of the error trace
\* to the given file in Json format. Note that you can pass any tuple
\* to `JsonSerialize`. For example, a sub-sequence of _TETrace.
    \* ASSUME
    \*     LET J == INSTANCE Json
    \*         IN J!JsonSerialize("RosmarConc_TTrace_1791002900.json", _TETrace)

=============================================================================

 Note that you can extract this module `RosmarConc_TEExpression`
  to a dedicated file to reuse `expression` (the module in the 
  dedicated `RosmarConc_TEExpression.tla` file takes precedence 
  over the module `RosmarConc_TEExpression` below).

---- MODULE RosmarConc_TEExpression ----
EXTENDS Sequences, TLCExt, RosmarConc, Toolbox, Naturals, TLC

expression == 
    [
        \* To hide variables of the `RosmarConc` spec from the error trace,
        \* remove the variables below.  The trace will be written in the order
        \* of the fields of this record.
        prog |-> prog
        ,doc |-> doc
        ,stops |-> stops
        ,lastRun |-> lastRun
        ,delivered |-> delivered
        ,fpc |-> fpc
        ,pend |-> pend
        ,clock |-> clock
        ,pc |-> pc
        ,sched |-> sched
        ,ckpt |-> ckpt
        ,okcount |-> okcount
        ,queue |-> queue
        ,seen |-> seen
        ,ckpend |-> ckpend
        
        \* Put additional constant-, state-, and action-level expressions here:
        \* ,_stateNumber |-> _TEPosition
        \* ,_progUnchanged |-> prog = prog'
        
        \* Format the `prog` variable as Json value.
        \* ,_progJson |->
        \*     LET J == INSTANCE Json
        \*     IN J!ToJson(prog)
        
        \* Lastly, you may build expressions over arbitrary sets of states by
        \* leveraging the _TETrace operator.  For example, this is how to
        \* count the number of times a spec variable changed up to the current
        \* state in the trace.
        \* ,_progModCount |->
        \*     LET F[s \in DOMAIN _TETrace] ==
        \*         IF s = 1 THEN 0
        \*         ELSE IF _TETrace[s].prog # _TETrace[s-1].prog
        \*             THEN 1 + F[s-1] ELSE F[s-1]
        \*     IN F[_TEPosition - 1]
    ]

=============================================================================



Parsing and semantic processing can take forever if the trace below is long.
 In this case, it is advised to uncomment the module below to deserialize the
 trace from a generated binary file.

\*
\*---- MODULE RosmarConc_TETrace ----
\*EXTENDS IOUtils, RosmarConc, TLC
\*
\*trace == IODeserialize("RosmarConc_TTrace_1791002900.bin", TRUE)
\*
\*=============================================================================
\*

---- MODULE RosmarConc_TETrace ----
EXTENDS RosmarConc, TLC

trace == 
    <<
    ([ckpt |-> 0,okcount |-> [p1 |-> 0, p2 |-> 0],lastRun |-> <<>>,delivered |-> <<>>,clock |-> 1,prog |-> [p1 |-> "set", p2 |-> "set"],seen |-> [p1 |-> [cas |-> 1, val |-> 0], p2 |-> [cas |-> 1, val |-> 0]],pc |-> [p1 |-> "start", p2 |-> "start"],sched |-> <<>>,fpc |-> "start",doc |-> [cas |-> 1, val |-> 0, live |-> TRUE],stops |-> 0,ckpend |-> 0,queue |-> <<>>,pend |-> [p1 |-> 0, p2 |-> 0]]),
    ([ckpt |-> 0,okcount |-> [p1 |-> 1, p2 |-> 0],lastRun |-> <<>>,delivered |-> <<>>,clock |-> 2,prog |-> [p1 |-> "set", p2 |-> "set"],seen |-> [p1 |-> [cas |-> 1, val |-> 0], p2 |-> [cas |-> 1, val |-> 0]],pc |-> [p1 |-> "post", p2 |-> "start"],sched |-> <<"p1">>,fpc |-> "start",doc |-> [cas |-> 2, val |-> 100, live |-> TRUE],stops |-> 0,ckpend |-> 0,queue |-> <<>>,pend |-> [p1 |-> 2, p2 |-> 0]]),
    ([ckpt |-> 0,okcount |-> [p1 |-> 1, p2 |-> 0],lastRun |-> <<>>,delivered |-> <<>>,clock |-> 2,prog |-> [p1 |-> "set", p2 |-> "set"],seen |-> [p1 |-> [cas |-> 1, val |-> 0], p2 |-> [cas |-> 1, val |-> 0]],pc |-> [p1 |-> "post", p2 |-> "start"],sched |-> <<"p1", "f">>,fpc |-> "backfilled",doc |-> [cas |-> 2, val |-> 100, live |-> TRUE],stops |-> 0,ckpend |-> 0,queue |-> <<-1, 2, -2>>,pend |-> [p1 |-> 2, p2 |-> 0]]),
    ([ckpt |-> 0,okcount |-> [p1 |-> 1, p2 |-> 0],lastRun |-> <<>>,delivered |-> <<>>,clock |-> 2,prog |-> [p1 |-> "set", p2 |-> "set"],seen |-> [p1 |-> [cas |-> 1, val |-> 0], p2 |-> [cas |-> 1, val |-> 0]],pc |-> [p1 |-> "post", p2 |-> "start"],sched |-> <<"p1", "f", "f">>,fpc |-> "registered",doc |-> [cas |-> 2, val |-> 100, live |-> TRUE],stops |-> 0,ckpend |-> 0,queue |-> <<-1, 2, -2>>,pend |-> [p1 |-> 2, p2 |-> 0]]),
    ([ckpt |-> 0,okcount |-> [p1 |-> 1, p2 |-> 0],lastRun |-> <<>>,delivered |-> <<>>,clock |-> 2,prog |-> [p1 |-> "set", p2 |-> "set"],seen |-> [p1 |-> [cas |-> 1, val |-> 0], p2 |-> [cas |-> 1, val |-> 0]],pc |-> [p1 |-> "post", p2 |-> "start"],sched |-> <<"p1", "f", "f", "f">>,fpc |-> "running",doc |-> [cas |-> 2, val |-> 100, live |-> TRUE],stops |-> 0,ckpend |-> 0,queue |-> <<-1, 2, -2>>,pend |-> [p1 |-> 2, p2 |-> 0]]),
    ([ckpt |-> 0,okcount |-> [p1 |-> 1, p2 |-> 0],lastRun |-> <<>>,delivered |-> <<>>,clock |-> 2,prog |-> [p1 |-> "set", p2 |-> "set"],seen |-> [p1 |-> [cas |-> 1, val |-> 0], p2 |-> [cas |-> 1, val |-> 0]],pc |-> [p1 |-> "post", p2 |-> "start"],sched |-> <<"p1", "f", "f", "f", "run">>,fpc |-> "running",doc |-> [cas |-> 2, val |-> 100, live |-> TRUE],stops |-> 0,ckpend |-> 0,queue |-> <<2, -2>>,pend |-> [p1 |-> 2, p2 |-> 0]]),
    ([ckpt |-> 0,okcount |-> [p1 |-> 1, p2 |-> 0],lastRun |-> <<2>>,delivered |-> <<2>>,clock |-> 2,prog |-> [p1 |-> "set", p2 |-> "set"],seen |-> [p1 |-> [cas |-> 1, val |-> 0], p2 |-> [cas |-> 1, val |-> 0]],pc |-> [p1 |-> "post", p2 |-> "start"],sched |-> <<"p1", "f", "f", "f", "run", "run">>,fpc |-> "running",doc |-> [cas |-> 2, val |-> 100, live |-> TRUE],stops |-> 0,ckpend |-> 0,queue |-> <<-2>>,pend |-> [p1 |-> 2, p2 |-> 0]]),
    ([ckpt |-> 0,okcount |-> [p1 |-> 1, p2 |-> 0],lastRun |-> <<2>>,delivered |-> <<2>>,clock |-> 2,prog |-> [p1 |-> "set", p2 |-> "set"],seen |-> [p1 |-> [cas |-> 1, val |-> 0], p2 |-> [cas |-> 1, val |-> 0]],pc |-> [p1 |-> "post", p2 |-> "start"],sched |-> <<"p1", "f", "f", "f", "run", "run", "run">>,fpc |-> "running",doc |-> [cas |-> 2, val |-> 100, live |-> TRUE],stops |-> 0,ckpend |-> 0,queue |-> <<>>,pend |-> [p1 |-> 2, p2 |-> 0]]),
    ([ckpt |-> 0,okcount |-> [p1 |-> 1, p2 |-> 0],lastRun |-> <<2>>,delivered |-> <<2>>,clock |-> 2,prog |-> [p1 |-> "set", p2 |-> "set"],seen |-> [p1 |-> [cas |-> 1, val |-> 0], p2 |-> [cas |-> 1, val |-> 0]],pc |-> [p1 |-> "done", p2 |-> "start"],sched |-> <<"p1", "f", "f", "f", "run", "run", "run", "p1">>,fpc |-> "running",doc |-> [cas |-> 2, val |-> 100, live |-> TRUE],stops |-> 0,ckpend |-> 0,queue |-> <<2>>,pend |-> [p1 |-> 0, p2 |-> 0]]),
    ([ckpt |-> 0,okcount |-> [p1 |-> 1, p2 |-> 0],lastRun |-> <<2, 2>>,delivered |-> <<2, 2>>,clock |-> 2,prog |-> [p1 |-> "set", p2 |-> "set"],seen |-> [p1 |-> [cas |-> 1, val |-> 0], p2 |-> [cas |-> 1, val |-> 0]],pc |-> [p1 |-> "done", p2 |-> "start"],sched |-> <<"p1", "f", "f", "f", "run", "run", "run", "p1", "run">>,fpc |-> "running",doc |-> [cas |-> 2, val |-> 100, live |-> TRUE],stops |-> 0,ckpend |-> 0,queue |-> <<>>,pend |-> [p1 |-> 0, p2 |-> 0]])
    >>
----


=============================================================================

---- CONFIG RosmarConc_TTrace_1791002900 ----
CONSTANTS
    Clients = { "p1" , "p2" }
    Kinds = { "set" , "casw" , "update" , "incr" , "get" , "remove" }
    HasFeed = TRUE
    FeedBackfill = TRUE
    Stops = 1
    InitDoc = TRUE
    FeedInit = "start"
    DeliverLast = FALSE
    EnterGate = FALSE
    PostUnderLock = FALSE
    RegisterAtomic = FALSE

INVARIANT
    _inv

CHECK_DEADLOCK
    \* CHECK_DEADLOCK off because of PROPERTY or INVARIANT above.
    FALSE

INIT
    _init

NEXT
    _next

CONSTANT
    _TETrace <- _trace

ALIAS
    _expression
=============================================================================
\* Generated on Sat Oct 03 04:48:22 UTC 2026