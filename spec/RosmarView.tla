----------------------------- MODULE RosmarView -----------------------------
(***************************************************************************)
(* The incrementally maintained view index of one collection (C12).        *)
(*                                                                         *)
(* A view remembers the collection's high-water mark at its last update    *)
(* (vlast).  A non-stale query first brings the index up to date: if the   *)
(* mark has moved, the rows of every document whose CAS is above vlast are *)
(* dropped and those documents are mapped again; then vlast := mark.  This *)
(* is only right as long as "CAS above vlast" captures every document that *)
(* changed since the last update, so the model contains everything that    *)
(* moves CAS values and marks:                                             *)
(*   Write       a regular write: CAS from the process clock, mark := CAS  *)
(*   WriteOther  a regular write to another collection of the bucket       *)
(*   Meta        SetWithMeta / DeleteWithMeta: caller-chosen CAS;          *)
(*               at or below the mark -> the collection's views are        *)
(*               invalidated (vlast := 0), above it -> mark := CAS         *)
(*   Purge       a tombstone without xattrs disappears (rows cascade)      *)
(*   Replace     the design document is replaced (rows dropped, vlast 0)   *)
(*   Update      what a non-stale (or update-after) query does first       *)
(*                                                                         *)
(* Switches (TRUE = the design):                                           *)
(*   InvalidateOnForeign  a caller-chosen CAS at or below the mark         *)
(*                        invalidates the views                            *)
(*   OwnMark              the index compares with the collection's own     *)
(*                        mark (FALSE: with the bucket-wide one)           *)
(*   ClockSeesForeign     a caller-chosen CAS above the mark advances the  *)
(*                        process clock, so that later regular writes are  *)
(*                        stamped above it                                 *)
(***************************************************************************)
EXTENDS Integers, FiniteSets, TLC

CONSTANTS Keys, MaxCas, MaxSteps, InvalidateOnForeign, OwnMark, ClockSeesForeign

VARIABLES docs,    \* [Keys -> [cas, ver, vis]]: cas 0 = no row; vis = the map function emits a row for it (body or xattrs)
          clock,   \* the process clock (last CAS it handed out or was told about)
          cmark,   \* collections.lastCas of this collection
          omark,   \* newest CAS written to another collection
          vlast,   \* views.lastCas
          rows,    \* the index: set of <<key, ver>>
          nver, steps
vars == <<docs, clock, cmark, omark, vlast, rows, nver, steps>>

NoDoc == [cas |-> 0, ver |-> 0, vis |-> FALSE]
Max2(a, b) == IF a > b THEN a ELSE b
Mark == IF OwnMark THEN cmark ELSE Max2(cmark, omark)
Expected == {<<k, docs[k].ver>> : k \in {x \in Keys : docs[x].cas > 0 /\ docs[x].vis}}

Init == /\ docs = [k \in Keys |-> NoDoc]
        /\ clock = 0 /\ cmark = 0 /\ omark = 0 /\ vlast = 0 /\ rows = {} /\ nver = 0 /\ steps = 0

Write(k, vis) ==
    /\ clock < MaxCas
    /\ clock' = clock + 1
    /\ docs' = [docs EXCEPT ![k] = [cas |-> clock + 1, ver |-> nver + 1, vis |-> vis]]
    /\ cmark' = clock + 1                      \* setLastCas: the mark becomes this CAS (not the maximum)
    /\ nver' = nver + 1
    /\ UNCHANGED <<omark, vlast, rows>>

WriteOther ==
    /\ clock < MaxCas
    /\ clock' = clock + 1 /\ omark' = clock + 1
    /\ UNCHANGED <<docs, cmark, vlast, rows, nver>>

Meta(k, c, vis) ==
    /\ c # docs[k].cas
    /\ docs' = [docs EXCEPT ![k] = [cas |-> c, ver |-> nver + 1, vis |-> vis]]
    /\ nver' = nver + 1
    /\ IF c <= cmark
       THEN /\ vlast' = IF InvalidateOnForeign THEN 0 ELSE vlast
            /\ UNCHANGED <<cmark, clock>>
       ELSE /\ cmark' = c
            /\ clock' = IF ClockSeesForeign THEN Max2(clock, c) ELSE clock
            /\ vlast' = vlast
    /\ UNCHANGED <<omark, rows>>

Purge(k) ==
    /\ docs[k].cas > 0 /\ ~docs[k].vis
    /\ docs' = [docs EXCEPT ![k] = NoDoc]
    /\ rows' = {r \in rows : r[1] # k}
    /\ UNCHANGED <<clock, cmark, omark, vlast, nver>>

Replace == /\ rows' = {} /\ vlast' = 0 /\ UNCHANGED <<docs, clock, cmark, omark, nver>>

Update ==
    /\ vlast # Mark
    /\ rows' = {r \in rows : docs[r[1]].cas <= vlast}
               \cup {<<k, docs[k].ver>> : k \in {x \in Keys : docs[x].cas > vlast /\ docs[x].vis}}
    /\ vlast' = Mark
    /\ UNCHANGED <<docs, clock, cmark, omark, nver>>

Next == /\ steps < MaxSteps /\ steps' = steps + 1
        /\ \/ \E k \in Keys, vis \in BOOLEAN : Write(k, vis)
           \/ WriteOther
           \/ \E k \in Keys, c \in 1..MaxCas, vis \in BOOLEAN : Meta(k, c, vis)
           \/ \E k \in Keys : Purge(k)
           \/ Replace
           \/ Update
Spec == Init /\ [][Next]_vars
View == <<docs, clock, cmark, omark, vlast, rows, steps>>

(* C12: whenever a non-stale query would find nothing to do, the index is exactly the map of the current documents; *)
(* i.e. the rows a non-stale query returns never depend on when the index was updated                                *)
UpToDateIsExact == (vlast = Mark) => rows = Expected
(* the assumption the incremental update rests on: a document changed since the last update has a CAS above vlast *)
ChangedAreAbove == (vlast # 0) => \A k \in Keys : (docs[k].cas > 0 /\ <<k, docs[k].ver>> \notin rows /\ docs[k].vis) => docs[k].cas > vlast
=============================================================================
