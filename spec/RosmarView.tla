----------------------------- MODULE RosmarView -----------------------------
(***************************************************************************)
(* The incrementally maintained view index of one collection (C12).        *)
(*                                                                         *)
(* A view remembers the collection's high-water mark at its last update    *)
(* (vlast).  A non-stale query first brings the index up to date: if the   *)
(* mark has moved, the rows of every document whose CAS is above vlast are *)
(* dropped and those documents are mapped again; then vlast := mark.  This *)
(* is only right as long as "CAS above vlast" captures every document that *)
(* changed since the last update, so the model contains everything that    *)
(* moves CAS values and marks:                                             *)
(*   Write       a regular write (a document the map function emits a row  *)
(*               for, one it skips, or a deletion): CAS from the process   *)
(*               clock, mark := CAS                                        *)
(*   WriteOther  a regular write to another collection of the bucket       *)
(*   Meta        SetWithMeta / DeleteWithMeta: caller-chosen CAS;          *)
(*               at or below the mark -> the collection's views are        *)
(*               invalidated (vlast := 0), above it -> mark := CAS and the *)
(*               clock learns of it                                        *)
(*   Purge       the tombstones disappear (their rows cascade)             *)
(*   Replace     the design document is replaced (rows dropped, vlast 0)   *)
(*   Query       stale=false: Update, then the rows; stale=ok: the rows as *)
(*               they are                                                  *)
(*                                                                         *)
(* Switches (TRUE = the design):                                           *)
(*   InvalidateOnForeign  a caller-chosen CAS at or below the mark         *)
(*                        invalidates the views                            *)
(*   OwnMark              the index compares with the collection's own     *)
(*                        mark (FALSE: with the bucket-wide one)           *)
(*   ClockSeesForeign     a caller-chosen CAS above the mark advances the  *)
(*                        process clock, so that later regular writes are  *)
(*                        stamped above it                                 *)
(*                                                                         *)
(* MC_View_*.cfg: model checking (design + three witnesses).               *)
(* Gen_View.cfg : behaviour generation (tlc -simulate); the Go harness     *)
(* replays the printed action lists with the physical clock standing still *)
(* (so that real CAS = base + model CAS) and ViewTrace validates the rows  *)
(* every query returned - non-stale ones and stale=ok ones, which show the *)
(* index as it is.                                                         *)
(***************************************************************************)
EXTENDS Integers, Sequences, FiniteSets, TLC, Json

CONSTANTS Keys, MaxCas, MaxSteps, InvalidateOnForeign, OwnMark, ClockSeesForeign

VARIABLES docs,    \* [Keys -> [cas, ver, kind]]: cas 0 = no row; kind: "emit" (the map function emits a row), "skip", "tomb"
          clock,   \* the process clock (last CAS it handed out or was told about)
          cmark,   \* collections.lastCas of this collection
          omark,   \* newest CAS written to another collection
          vlast,   \* views.lastCas
          rows,    \* the index: set of <<key, ver, dv>>
          dv,      \* which of two design documents is installed
          nver, steps, hist
vars == <<docs, clock, cmark, omark, vlast, rows, dv, nver, steps, hist>>

NoDoc == [cas |-> 0, ver |-> 0, kind |-> "none"]
Max2(a, b) == IF a > b THEN a ELSE b
Mark == IF OwnMark THEN cmark ELSE Max2(cmark, omark)
Emitting(d) == {k \in Keys : d[k].cas > 0 /\ d[k].kind = "emit"}
Expected == {<<k, docs[k].ver, dv>> : k \in Emitting(docs)}

Init == /\ docs = [k \in Keys |-> NoDoc]
        /\ clock = 0 /\ cmark = 0 /\ omark = 0 /\ vlast = 0 /\ rows = {} /\ dv = 0 /\ nver = 0 /\ steps = 0 /\ hist = <<>>

(* (the CAS is a parameter so that trace validation can replay the values the real clock handed out) *)
WriteC(k, kd, c) ==
    /\ kd = "tomb" => docs[k].kind \in {"emit", "skip"}         \* Delete of a live document
    /\ clock' = c
    /\ docs' = [docs EXCEPT ![k] = [cas |-> c, ver |-> nver + 1, kind |-> kd]]
    /\ cmark' = c                             \* setLastCas: the mark becomes this CAS (not the maximum)
    /\ nver' = nver + 1
    /\ UNCHANGED <<omark, vlast, rows, dv>>
Write(k, kd) == clock < MaxCas /\ WriteC(k, kd, clock + 1)

WriteOtherC(c) ==
    /\ clock' = c /\ omark' = c
    /\ UNCHANGED <<docs, cmark, vlast, rows, dv, nver>>
WriteOther == clock < MaxCas /\ WriteOtherC(clock + 1)

MetaC(k, c, kd) ==
    /\ docs' = [docs EXCEPT ![k] = [cas |-> c, ver |-> nver + 1, kind |-> kd]]
    /\ nver' = nver + 1
    /\ IF c <= cmark
       THEN /\ vlast' = IF InvalidateOnForeign THEN 0 ELSE vlast
            /\ UNCHANGED <<cmark, clock>>
       ELSE /\ cmark' = c
            /\ clock' = IF ClockSeesForeign THEN Max2(clock, c) ELSE clock
            /\ vlast' = vlast
    /\ UNCHANGED <<omark, rows, dv>>

Meta(k, c, kd) == c # docs[k].cas /\ MetaC(k, c, kd)

PurgeC ==
    /\ docs' = [k \in Keys |-> IF docs[k].kind = "tomb" THEN NoDoc ELSE docs[k]]
    /\ rows' = {r \in rows : docs[r[1]].kind # "tomb"}
    /\ UNCHANGED <<clock, cmark, omark, vlast, dv, nver>>

Purge == (\E k \in Keys : docs[k].kind = "tomb") /\ PurgeC

Replace == /\ rows' = {} /\ vlast' = 0 /\ dv' = 1 - dv /\ UNCHANGED <<docs, clock, cmark, omark, nver>>

Updated == IF vlast = Mark THEN rows
           ELSE {r \in rows : docs[r[1]].cas <= vlast}
                \cup {<<k, docs[k].ver, dv>> : k \in {x \in Emitting(docs) : docs[x].cas > vlast}}
Update ==
    /\ rows' = Updated
    /\ vlast' = Mark
    /\ UNCHANGED <<docs, clock, cmark, omark, dv, nver>>
QueryStaleOk == UNCHANGED <<docs, clock, cmark, omark, vlast, rows, dv, nver>>

Act(a, k, c, kd) == [a |-> a, k |-> k, c |-> c, kd |-> kd]
Next == /\ steps < MaxSteps /\ steps' = steps + 1
        /\ \/ \E k \in Keys, kd \in {"emit", "skip", "tomb"} : Write(k, kd) /\ hist' = Append(hist, Act("write", k, 0, kd))
           \/ WriteOther /\ hist' = Append(hist, Act("other", "-", 0, "-"))
           \/ \E k \in Keys, c \in 1..MaxCas, kd \in {"emit", "tomb"} : Meta(k, c, kd) /\ hist' = Append(hist, Act("meta", k, c, kd))
           \/ Purge /\ hist' = Append(hist, Act("purge", "-", 0, "-"))
           \/ Replace /\ hist' = Append(hist, Act("replace", "-", 0, "-"))
           \/ (vlast # Mark /\ Update /\ hist' = Append(hist, Act("query", "-", 0, "-")))
Spec == Init /\ [][Next]_vars
View == <<docs, clock, cmark, omark, vlast, rows, dv, steps>>

(* C12: whenever a non-stale query would find nothing to do, the index is exactly the map of the current documents; *)
(* i.e. the rows a non-stale query returns never depend on when the index was updated                                *)
UpToDateIsExact == (vlast = Mark) => rows = Expected

(* behaviour generation: random action lists with queries (non-stale and stale=ok) at random places *)
Pick(S) == RandomElement(S)
GenNext ==
    /\ steps < MaxSteps /\ steps' = steps + 1
    \* (random choices are bound by \E over singleton sets: a LET would draw again at every use)
    /\ \E r \in {Pick(1..20)}, k \in {Pick(Keys)} :
       IF r <= 6 THEN
           \E kd \in {Pick(IF docs[k].kind \in {"emit", "skip"} THEN {"emit", "emit", "skip", "tomb"} ELSE {"emit", "emit", "skip"})} :
           IF clock < MaxCas THEN Write(k, kd) /\ hist' = Append(hist, Act("write", k, 0, kd))
           ELSE Update /\ hist' = Append(hist, Act("query", "-", 0, "-"))
       ELSE IF r <= 8 /\ clock < MaxCas THEN WriteOther /\ hist' = Append(hist, Act("other", "-", 0, "-"))
       ELSE IF r <= 12 THEN
           \* a caller-chosen CAS: at or below the mark, between the collection's and the bucket's mark, above the clock
           LET cs == ({cmark, cmark - 1, 1, omark - 1, clock + 2, clock + 1} \cap 1..MaxCas) \ {docs[k].cas} IN
           IF cs = {} THEN Update /\ hist' = Append(hist, Act("query", "-", 0, "-"))
           ELSE \E c \in {Pick(cs)}, kd \in {Pick({"emit", "emit", "tomb"})} :
                   Meta(k, c, kd) /\ hist' = Append(hist, Act("meta", k, c, kd))
       ELSE IF r = 13 /\ \E x \in Keys : docs[x].kind = "tomb" THEN Purge /\ hist' = Append(hist, Act("purge", "-", 0, "-"))
       ELSE IF r = 14 THEN Replace /\ hist' = Append(hist, Act("replace", "-", 0, "-"))
       ELSE IF r <= 16 THEN QueryStaleOk /\ hist' = Append(hist, Act("staleok", "-", 0, "-"))
       ELSE Update /\ hist' = Append(hist, Act("query", "-", 0, "-"))
    /\ (steps' < MaxSteps \/ PrintT("BEHAVIOUR " \o ToJson(hist')))
GenSpec == Init /\ [][GenNext]_vars
=============================================================================
