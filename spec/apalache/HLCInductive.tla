---------------------------- MODULE HLCInductive ----------------------------
(***************************************************************************)
(* Unbounded-integer companion of RosmarHLC for one persistent bucket:     *)
(* Apalache discharges that IndInv is inductive (IndInit => IndInv at      *)
(* length 0, IndInv /\ Next => IndInv' at length 1).  IndInv contains      *)
(* `ok`, which records that every CAS issued so far exceeded every CAS     *)
(* the bucket had issued before (in this or an earlier process).           *)
(***************************************************************************)
EXTENDS Integers

VARIABLES
    \* @type: Int;
    highest,     \* the clock's memory in the current process
    \* @type: Int;
    phys,        \* physical clock reading (arbitrary, may go backwards)
    \* @type: Int;
    persisted,   \* the bucket's persisted last CAS
    \* @type: Int;
    bucketMax,   \* highest CAS the bucket ever issued
    \* @type: Bool;
    isopen,
    \* @type: Bool;
    ok

Init == /\ highest = 0 /\ phys \in Nat /\ persisted = 0 /\ bucketMax = 0 /\ isopen = TRUE /\ ok = TRUE

Clock == \E v \in Nat : phys' = v /\ UNCHANGED <<highest, persisted, bucketMax, isopen, ok>>
Now == /\ isopen
       /\ LET n == IF highest >= phys THEN highest + 1 ELSE phys IN
          /\ highest' = n /\ persisted' = n
          /\ ok' = (ok /\ n > bucketMax)
          /\ bucketMax' = IF n > bucketMax THEN n ELSE bucketMax
       /\ UNCHANGED <<phys, isopen>>
Restart == /\ highest' = 0 /\ isopen' = FALSE /\ UNCHANGED <<phys, persisted, bucketMax, ok>>
Open == /\ ~isopen /\ isopen' = TRUE
        /\ highest' = IF persisted > highest THEN persisted ELSE highest
        /\ UNCHANGED <<phys, persisted, bucketMax, ok>>
Next == Clock \/ Now \/ Restart \/ Open

IndInv == /\ ok
          /\ highest >= 0 /\ phys >= 0 /\ persisted >= 0 /\ bucketMax >= 0
          /\ bucketMax <= persisted
          /\ (isopen => persisted <= highest)
IndInit == /\ highest \in Int /\ phys \in Int /\ persisted \in Int /\ bucketMax \in Int
           /\ isopen \in BOOLEAN /\ ok \in BOOLEAN
           /\ IndInv
=============================================================================
