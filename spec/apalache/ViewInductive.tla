---------------------------- MODULE ViewInductive ----------------------------
(***************************************************************************)
(* Unbounded companion of RosmarView (design switches on): CAS values,     *)
(* versions and the number of steps are unbounded integers.  Apalache      *)
(* discharges that IndInv is an inductive invariant (Init => IndInv at     *)
(* length 0; IndInv /\ Next => IndInv' at length 1 from IndInit) and that  *)
(* IndInv implies the property: whenever the view's mark equals the        *)
(* collection's, the index is exactly the map of the current documents.    *)
(* The index is a function of the key here (a document has at most one     *)
(* row), which keeps every variable finite-domain.                         *)
(***************************************************************************)
EXTENDS Integers

Keys == {"k1", "k2", "k3"}
Kinds == {"none", "emit", "skip", "tomb"}

VARIABLES
    \* @type: Str -> Int;
    dcas,
    \* @type: Str -> Int;
    dver,
    \* @type: Str -> Str;
    dkind,
    \* @type: Int;
    clock,
    \* @type: Int;
    cmark,
    \* @type: Int;
    omark,
    \* @type: Int;
    vlast,
    \* @type: Str -> Bool;
    ihas,
    \* @type: Str -> Int;
    iver,
    \* @type: Str -> Int;
    idv,
    \* @type: Int;
    dv,
    \* @type: Int;
    nver

Max2(a, b) == IF a > b THEN a ELSE b
Emits(k) == dcas[k] > 0 /\ dkind[k] = "emit"
(* the index row of key k is what the map function makes of the current document *)
RowExact(k) == IF Emits(k) THEN ihas[k] /\ iver[k] = dver[k] /\ idv[k] = dv ELSE ~ihas[k]

Init == /\ dcas = [k \in Keys |-> 0] /\ dver = [k \in Keys |-> 0] /\ dkind = [k \in Keys |-> "none"]
        /\ ihas = [k \in Keys |-> FALSE] /\ iver = [k \in Keys |-> 0] /\ idv = [k \in Keys |-> 0]
        /\ clock = 0 /\ cmark = 0 /\ omark = 0 /\ vlast = 0 /\ dv = 0 /\ nver = 0

SetDoc(k, c, kd) ==
    /\ dcas' = [dcas EXCEPT ![k] = c] /\ dver' = [dver EXCEPT ![k] = nver + 1] /\ dkind' = [dkind EXCEPT ![k] = kd]
    /\ nver' = nver + 1
Write(k, kd) ==
    /\ kd = "tomb" => dkind[k] \in {"emit", "skip"}
    /\ clock' = clock + 1
    /\ SetDoc(k, clock + 1, kd)
    /\ cmark' = clock + 1
    /\ UNCHANGED <<omark, vlast, ihas, iver, idv, dv>>
WriteOther == /\ clock' = clock + 1 /\ omark' = clock + 1 /\ UNCHANGED <<dcas, dver, dkind, cmark, vlast, ihas, iver, idv, dv, nver>>
Meta(k, c, kd) ==
    /\ c > 0
    /\ SetDoc(k, c, kd)
    /\ IF c <= cmark
       THEN vlast' = 0 /\ UNCHANGED <<cmark, clock>>
       ELSE cmark' = c /\ clock' = Max2(clock, c) /\ vlast' = vlast
    /\ UNCHANGED <<omark, ihas, iver, idv, dv>>
Purge ==
    /\ dcas' = [k \in Keys |-> IF dkind[k] = "tomb" THEN 0 ELSE dcas[k]]
    /\ dver' = [k \in Keys |-> IF dkind[k] = "tomb" THEN 0 ELSE dver[k]]
    /\ dkind' = [k \in Keys |-> IF dkind[k] = "tomb" THEN "none" ELSE dkind[k]]
    /\ ihas' = [k \in Keys |-> IF dkind[k] = "tomb" THEN FALSE ELSE ihas[k]]
    /\ UNCHANGED <<clock, cmark, omark, vlast, iver, idv, dv, nver>>
Replace == /\ ihas' = [k \in Keys |-> FALSE] /\ vlast' = 0 /\ dv' = 1 - dv
           /\ UNCHANGED <<dcas, dver, dkind, clock, cmark, omark, iver, idv, nver>>
Update ==
    /\ ihas' = [k \in Keys |-> IF vlast # cmark /\ dcas[k] > vlast THEN Emits(k) ELSE ihas[k]]
    /\ iver' = [k \in Keys |-> IF vlast # cmark /\ dcas[k] > vlast THEN dver[k] ELSE iver[k]]
    /\ idv' = [k \in Keys |-> IF vlast # cmark /\ dcas[k] > vlast THEN dv ELSE idv[k]]
    /\ vlast' = cmark
    /\ UNCHANGED <<dcas, dver, dkind, clock, cmark, omark, dv, nver>>

Next == \/ \E k \in Keys, kd \in {"emit", "skip", "tomb"} : Write(k, kd)
        \/ WriteOther
        \/ \E k \in Keys, c \in Int, kd \in {"emit", "tomb"} : Meta(k, c, kd)
        \/ Purge \/ Replace \/ Update

(* the property *)
UpToDateIsExact == (vlast = cmark) => \A k \in Keys : RowExact(k)

IndInv ==
    /\ clock >= 0 /\ cmark >= 0 /\ omark >= 0 /\ vlast >= 0 /\ nver >= 0 /\ dv \in {0, 1}
    /\ \A k \in Keys : /\ dkind[k] \in Kinds /\ dcas[k] >= 0
                       /\ (dcas[k] = 0 <=> dkind[k] = "none")
                       /\ dcas[k] <= cmark                           \* the mark covers every document
                       /\ (dcas[k] <= vlast => RowExact(k))           \* what the index has seen, it maps exactly
    /\ cmark <= clock                                                \* the clock covers the mark
    /\ vlast <= cmark
IndInit ==
    /\ dcas \in [Keys -> Int] /\ dver \in [Keys -> Int] /\ dkind \in [Keys -> Kinds]
    /\ ihas \in [Keys -> BOOLEAN] /\ iver \in [Keys -> Int] /\ idv \in [Keys -> Int]
    /\ clock \in Int /\ cmark \in Int /\ omark \in Int /\ vlast \in Int /\ dv \in Int /\ nver \in Int
    /\ IndInv
=============================================================================
