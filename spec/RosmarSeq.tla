----------------------------- MODULE RosmarSeq -----------------------------
(***************************************************************************)
(* The sequential system: a bucket with several collections that share key *)
(* names, driven by one client through every public write entry point.     *)
(* Each public call is one action (RosmarStore!Outcomes applied            *)
(* atomically).                                                            *)
(*                                                                         *)
(*  - MC_Seq*.cfg : exhaustive model checking of the design (Leg A): the    *)
(*    listed properties as invariants / action properties.                  *)
(*  - Gen_Seq.cfg : behaviour generation (Leg B): `tlc -simulate` picks     *)
(*    random operation instances (GenNext) and prints each finished         *)
(*    behaviour's operation list as JSON; the Go harness executes it on the *)
(*    real code and SeqTrace validates what the code did.                   *)
(***************************************************************************)
EXTENDS RosmarStore, Json

CONSTANTS Colls,      \* e.g. {"c0","c1","c2"}
          Keys,       \* e.g. {"k1","k2"}
          MaxOps,     \* bound on the number of calls (state constraint / behaviour length)
          OpSet       \* names of the operations enabled in this configuration

VARIABLES store,   \* [Colls -> [Keys -> Doc]]
          clock,   \* highest CAS issued by the regular write API
          nops,    \* number of calls so far
          last     \* the last call: [g |-> op instance, coll, key, pre, res] (observation only)
vars == <<store, clock, nops, last>>

---------------------------------------------------------------------------
(* Argument tokens *)
J1 == ObjBody([DashLeaves EXCEPT !["v"] = "J1"])
J2 == ObjBody([DashLeaves EXCEPT !["v"] = "J2", !["a"] = "s1"])
J3 == ObjBody([DashLeaves EXCEPT !["v"] = "J3", !["n"] = "{}", !["n.x"] = "s2"])
R1 == RawBody(<<"R1">>)
R2 == RawBody(<<"R2">>)
R0 == RawBody(<<>>)           \* a body of length zero (present, not JSON)
J4 == ObjBody([DashLeaves EXCEPT !["v"] = "J4", !["n"] = "null"])
JB == ObjBody([DashLeaves EXCEPT !["v"] = "JB", !["a"] = "big"])
BodyOf(t) == CASE t = "JB" -> JB [] t = "J4" -> J4 [] t = "J1" -> J1 [] t = "J2" -> J2 [] t = "J3" -> J3 [] t = "R1" -> R1 [] t = "R2" -> R2 [] t = "R0" -> R0
               [] OTHER -> NoBody
ExpToks == {"0", "E1", "E2", "R1"}
CasClasses == {"zero", "cur", "stale", "never"}

XA(t, mc, mh) == [t |-> t, mc |-> mc, mh |-> mh]
Sets1(x, v) == [NoSets EXCEPT ![x] = v]
(* a curated family of xattr-set arguments: each name alone, pairs, all, with and without macros *)
SetChoices ==
    { Sets1("_s", XA("x1", FALSE, FALSE)), Sets1("_s", XA("x2", FALSE, FALSE)),
      Sets1("_t", XA("x1", FALSE, FALSE)), Sets1("u", XA("x1", FALSE, FALSE)),
      Sets1("u", XA("x2", FALSE, FALSE)),
      Sets1("_s", XA("x1", TRUE, FALSE)), Sets1("_s", XA("x2", FALSE, TRUE)),
      Sets1("u", XA("x1", TRUE, TRUE)),
      [NoSets EXCEPT !["_s"] = XA("x1", FALSE, FALSE), !["u"] = XA("x2", FALSE, FALSE)],
      [NoSets EXCEPT !["_s"] = XA("x2", TRUE, TRUE), !["_t"] = XA("x1", FALSE, FALSE)],
      [NoSets EXCEPT !["_s"] = XA("x1", FALSE, FALSE), !["_t"] = XA("x2", FALSE, FALSE), !["u"] = XA("x1", FALSE, TRUE)] }
Dels1(x) == [NoDels EXCEPT ![x] = TRUE]
DelChoices == { Dels1("_s"), Dels1("_t"), Dels1("u"), [NoDels EXCEPT !["_s"] = TRUE, !["u"] = TRUE] }
PlainSets == { s \in SetChoices : ~AnyMacro(s) }

A0 == [key |-> "k1", exp |-> "0", pres |-> FALSE, casc |-> "zero", cas |-> 0, body |-> NoBody,
       btok |-> "", hasbody |-> FALSE, json |-> FALSE, opt |-> "", sets |-> NoSets, dels |-> NoDels,
       db |-> FALSE, amt |-> 0, def |-> 0, path |-> "-", val |-> "", newcas |-> 0, newc |-> "hi", cb |-> "",
       big |-> FALSE, badx |-> FALSE]
WithBody(a, t) == [a EXCEPT !.btok = t, !.body = BodyOf(t), !.hasbody = (t # ""), !.big = (t = "JB")]
BadSets == [NoSets EXCEPT !["_s"] = XA("xbad", FALSE, FALSE)]
BigSets == [NoSets EXCEPT !["u"] = XA("xbig", FALSE, FALSE), !["_s"] = XA("x1", FALSE, FALSE)]
Flagged(a) == [a EXCEPT !.big = (a.big \/ a.sets = BigSets), !.badx = (a.sets = BadSets)]

(* All argument records of one operation (before CAS classes are resolved). *)
ArgsFor(op) ==
    CASE op = "Set" ->
           {WithBody([A0 EXCEPT !.exp = e, !.pres = p], b) : e \in ExpToks, p \in BOOLEAN, b \in {"J1", "J2", "J3", "J4"}}
           \cup {WithBody([A0 EXCEPT !.exp = "E1"], "JB")}
      [] op = "SetRaw" ->
           {WithBody([A0 EXCEPT !.exp = e, !.pres = p], b) : e \in ExpToks, p \in BOOLEAN, b \in {"R1", "R2"}}
           \cup {WithBody([A0 EXCEPT !.exp = e], "R0") : e \in {"0", "E1"}}
      [] op = "Add" -> {WithBody([A0 EXCEPT !.exp = e], b) : e \in ExpToks, b \in {"J1", "J2"}}
      [] op = "AddRaw" -> {WithBody([A0 EXCEPT !.exp = e], b) : e \in {"0", "E1"}, b \in {"J1", "R1", "R0"}}
      [] op = "WriteCas" ->
           {WithBody([A0 EXCEPT !.exp = e, !.casc = c, !.opt = o], b) :
               e \in {"0", "E1"}, c \in CasClasses,
               <<o, b>> \in {<<"", "J1">>, <<"", "J2">>, <<"", "">>, <<"raw", "R1">>, <<"raw", "R0">>, <<"addonly", "J1">>,
                             <<"addonlyraw", "R2">>, <<"append", "R2">>}}
           \* the CAS given is that of another document of the collection
           \cup {WithBody([A0 EXCEPT !.casc = "sibkey", !.opt = o], b) : <<o, b>> \in {<<"", "J1">>, <<"raw", "R1">>, <<"append", "R2">>}}
      [] op = "Remove" -> {[A0 EXCEPT !.casc = c] : c \in CasClasses \cup {"sibkey"}}
      [] op = "Delete" -> {A0}
      [] op = "Update" ->
           {WithBody([A0 EXCEPT !.exp = e, !.cb = cb], IF cb \in {"set", "retry", "err", "touchset"} THEN "J2" ELSE "") :
               e \in {"0", "E1"}, cb \in {"set", "del", "cancel", "setexp", "retry", "err", "touchset"}}
      [] op = "Incr" -> {[A0 EXCEPT !.amt = m, !.def = d, !.exp = e] : m \in {0, 1, 2}, d \in {0, 3}, e \in {"0", "E1"}}
      [] op = "Touch" -> {[A0 EXCEPT !.exp = e] : e \in ExpToks}
      [] op = "GetAndTouchRaw" -> {[A0 EXCEPT !.exp = e] : e \in ExpToks}
      [] op = "SetXattrs" -> {Flagged([A0 EXCEPT !.sets = s]) : s \in PlainSets \cup {BadSets, BigSets}}
      [] op = "UpdateXattrs" ->
           {[A0 EXCEPT !.exp = e, !.casc = c, !.sets = s] : e \in {"0", "E1"}, c \in CasClasses, s \in SetChoices}
      [] op = "RemoveXattrs" -> {[A0 EXCEPT !.casc = c, !.dels = d] : c \in CasClasses, d \in DelChoices}
      [] op = "DeleteSubDocPaths" -> {[A0 EXCEPT !.dels = d] : d \in DelChoices}
      [] op = "WriteWithXattrs" ->
           {WithBody([A0 EXCEPT !.exp = e, !.casc = c, !.sets = s, !.dels = d, !.pres = p], b) :
               e \in {"0", "E1"}, c \in CasClasses, s \in SetChoices \cup {NoSets},
               d \in {NoDels, Dels1("_t"), Dels1("u")}, p \in BOOLEAN, b \in {"", "J1", "J2"}}
           \cup {Flagged(WithBody([A0 EXCEPT !.exp = "E1", !.casc = c, !.sets = s], b)) :
                    c \in {"zero", "cur"}, s \in {BadSets, BigSets}, b \in {"", "J1"}}
           \cup {WithBody([A0 EXCEPT !.casc = c, !.sets = Sets1("_s", XA("x2", TRUE, FALSE))], "JB") : c \in {"zero", "cur"}}
      [] op = "WriteTombstoneWithXattrs" ->
           {[A0 EXCEPT !.exp = e, !.casc = c, !.sets = s, !.dels = d, !.db = db] :
               e \in {"0", "E1"}, c \in CasClasses, s \in SetChoices,
               d \in {NoDels, Dels1("_t")}, db \in BOOLEAN}
      [] op = "WriteResurrectionWithXattrs" ->
           {WithBody([A0 EXCEPT !.exp = e, !.sets = s], b) : e \in {"0", "E1"}, s \in SetChoices \cup {NoSets}, b \in {"J1", "J2"}}
      [] op = "WriteUpdateWithXattrs" ->
           {WithBody([A0 EXCEPT !.exp = e, !.sets = s, !.dels = d, !.db = db, !.pres = p, !.cb = "apply"], b) :
               e \in {"0", "E1"}, s \in SetChoices, d \in {NoDels, Dels1("_t")}, db \in BOOLEAN,
               p \in BOOLEAN, b \in {"", "J1", "J3"}}
           \* the caller supplies the version to start from (current / with an outdated CAS); the callback asks once to be called again
           \cup {WithBody([A0 EXCEPT !.sets = s, !.db = db, !.cb = cb], b) :
                    s \in {Sets1("_s", XA("x1", FALSE, FALSE)), Sets1("u", XA("x1", TRUE, TRUE))}, db \in BOOLEAN,
                    cb \in {"apply-cur", "apply-stale", "retry"}, b \in {"", "J1"}}
           \* the callback returns a body only
           \cup {WithBody([A0 EXCEPT !.exp = e, !.pres = p, !.cb = "apply"], b) : e \in {"0", "E1"}, p \in BOOLEAN, b \in {"J1", "J3"}}
      [] op = "DeleteWithXattrs" -> {[A0 EXCEPT !.dels = d] : d \in DelChoices \cup {NoDels}}
      [] op = "UpdateXattrDeleteBody" ->
           {[A0 EXCEPT !.exp = e, !.casc = c, !.sets = s] : e \in {"0", "E1"}, c \in CasClasses,
               s \in {Sets1("_s", XA("x1", FALSE, FALSE)), Sets1("u", XA("x2", FALSE, FALSE)), Sets1("_t", XA("x1", TRUE, TRUE))}}
      [] op = "SetWithMeta" ->
           {WithBody([A0 EXCEPT !.exp = e, !.casc = c, !.newc = nc, !.sets = s, !.json = (b = "J1")], b) :
               e \in {"0", "E1"}, c \in CasClasses, nc \in {"hi", "mid", "low", "btw", "far"}, s \in PlainSets \cup {NoSets},
               b \in {"J1", "R1", ""}}
           \* the caller passes an xattr object without members
           \cup {WithBody([A0 EXCEPT !.casc = c, !.newc = nc, !.opt = "emptyx", !.json = (b = "J1")], b) :
                    c \in {"zero", "cur"}, nc \in {"hi", "mid"}, b \in {"J1", "R1", ""}}
           \* a copy of the same key's document in another collection that keeps its CAS; a body of no bytes
           \cup {WithBody([A0 EXCEPT !.casc = c, !.newc = "sib", !.json = (b = "J1")], b) : c \in {"zero", "cur"}, b \in {"J1", "R1", ""}}
           \cup {WithBody([A0 EXCEPT !.casc = c, !.newc = "hi"], "R0") : c \in {"zero", "cur"}}
      [] op = "DeleteWithMeta" ->
           {[A0 EXCEPT !.exp = e, !.casc = c, !.newc = nc, !.sets = s] :
               e \in {"0"}, c \in CasClasses, nc \in {"hi", "mid", "low", "btw", "far"}, s \in PlainSets \cup {NoSets}}
      [] op = "WriteSubDoc" ->
           {[A0 EXCEPT !.path = p, !.casc = c, !.val = v] :
               p \in Leaves, c \in {"zero", "cur", "stale"}, v \in {"s1", "s2", ""}}
           \cup {[A0 EXCEPT !.path = "n", !.casc = c, !.val = "{}"] : c \in {"zero", "cur"}}
      [] op = "SubdocInsert" ->
           {[A0 EXCEPT !.path = p, !.casc = c, !.val = v] : p \in Leaves, c \in {"zero", "cur", "stale"}, v \in {"s1", "s2"}}
           \cup {[A0 EXCEPT !.path = "n", !.casc = c, !.val = "{}"] : c \in {"zero", "cur"}}
      [] op = "GetSubDocRaw" -> {[A0 EXCEPT !.path = p] : p \in Leaves}
      [] op = "PurgeTombstones" -> {A0}
      [] OTHER -> {A0}

AllOps == {"Set", "SetRaw", "Add", "AddRaw", "WriteCas", "Remove", "Delete", "Update", "Incr", "Touch",
           "GetAndTouchRaw", "SetXattrs", "UpdateXattrs", "RemoveXattrs", "DeleteSubDocPaths",
           "WriteWithXattrs", "WriteTombstoneWithXattrs", "WriteResurrectionWithXattrs",
           "WriteUpdateWithXattrs", "DeleteWithXattrs", "UpdateXattrDeleteBody", "SetWithMeta", "DeleteWithMeta", "WriteSubDoc",
           "SubdocInsert", "GetSubDocRaw", "PurgeTombstones", "SwapDDoc"}

---------------------------------------------------------------------------
MaxCas == LET all == {store[c][k].cas : c \in Colls, k \in Keys} \cup {clock} IN
          CHOOSE m \in all : \A x \in all : x <= m

(* resolve the CAS classes of an argument record against the current document *)
MaxOf(S) == CHOOSE m \in S : \A x \in S : x <= m
(* the CAS of the same key in another collection / of another key in the same collection (0: there is none) *)
SibCas(c, k) == LET S == {store[c2][k].cas : c2 \in Colls \ {c}} \ {0} IN IF S = {} THEN 0 ELSE MaxOf(S)
OtherKeyCas(c, k) == LET S == {store[c][k2].cas : k2 \in Keys \ {k}} \ {0} IN IF S = {} THEN 0 ELSE MaxOf(S)

Resolve(a, d, c, k) ==
    [a EXCEPT !.cas = CASE a.casc = "zero" -> 0
                        [] a.casc = "cur" -> IF IsAbsent(d) THEN 9999 ELSE d.cas
                        [] a.casc = "stale" -> 9998
                        \* "sibkey": the current CAS of another document of the same collection
                        [] a.casc = "sibkey" -> IF OtherKeyCas(c, k) \in {0, d.cas} THEN 9996 ELSE OtherKeyCas(c, k)
                        [] OTHER -> 9997,
              \* "btw": above the collection's own newest CAS, below another collection's (in this model: a new top);
              \* "far": a minute ahead of the process clock
              !.newcas = CASE a.newc \in {"hi", "btw", "far"} -> MaxCas + 1
                           [] a.newc = "mid" -> IF d.cas > 1 THEN d.cas - 1 ELSE MaxCas + 1
                           \* "sib": exactly the CAS the same key carries in another collection (a copy that keeps its CAS)
                           [] a.newc = "sib" -> IF SibCas(c, k) \in {0, d.cas} THEN MaxCas + 1 ELSE SibCas(c, k)
                           [] OTHER -> 1]

Purge(st) == [c \in Colls |-> [k \in Keys |-> IF IsTomb(st[c][k]) THEN AbsentDoc ELSE st[c][k]]]

(* One public call. *)
Apply(op, c, k, a0) ==
    LET d == store[c][k]
        a == Resolve([a0 EXCEPT !.key = k], d, c, k)
        n == clock + 1
    IN
    IF op = "PurgeTombstones"
    THEN /\ store' = Purge(store)
         /\ clock' = clock
         /\ nops' = nops + 1
         /\ last' = [op |-> op, coll |-> c, key |-> k, a |-> a, pre |-> d, ok |-> TRUE, mut |-> FALSE, any |-> FALSE]
    ELSE \E o \in Outcomes(op, a, d, n) :
         /\ store' = [store EXCEPT ![c][k] = o.doc]
         /\ clock' = IF o.mut /\ op \notin {"SetWithMeta", "DeleteWithMeta"} THEN n ELSE clock
         /\ nops' = nops + 1
         /\ last' = [op |-> op, coll |-> c, key |-> k, a |-> a, pre |-> d, ok |-> o.ok, mut |-> o.mut, any |-> o.any]

Init == /\ store = [c \in Colls |-> [k \in Keys |-> AbsentDoc]]
        /\ clock = 0
        /\ nops = 0
        /\ last = [op |-> "-", coll |-> "-", key |-> "-", a |-> A0, pre |-> AbsentDoc, ok |-> TRUE, mut |-> FALSE, any |-> FALSE]

(* exhaustive next-state relation *)
Next == /\ nops < MaxOps
        /\ \E op \in OpSet, c \in Colls, k \in Keys : \E a \in ArgsFor(op) : Apply(op, c, k, a)

Spec == Init /\ [][Next]_vars

View == <<store, clock, nops>>

---------------------------------------------------------------------------
(* The listed properties, as properties of the design (Leg A).             *)
Changed(c, k) == store'[c][k] # store[c][k]
Target == <<last'.coll, last'.key>>

(* C01: a call that reports an error leaves every document as it was *)
C01_ErrorLeavesUnchanged == [][~last'.ok => store' = store]_vars
(* C02: a conditional write is applied only if its CAS is current (0 = no document; for WriteCas: no live one) *)
CasCurrent(op, a, d) ==
    \/ a.cas = d.cas
    \/ a.cas = 0 /\ IsAbsent(d)
    \/ a.cas = 0 /\ op \in {"WriteCas", "WriteSubDoc"} /\ ~HasBody(d)
    \/ a.cas = 0 /\ op \in {"WriteSubDoc", "SubdocInsert"}  \* CAS 0 = unconditional for sub-document writes
    \/ op = "WriteCas" /\ a.opt \in {"addonly", "addonlyraw"} /\ ~HasBody(d)
C02_AppliedOnlyIfCurrent ==
    [][(last'.op \in Conditional /\ last'.ok /\ ~last'.any /\ store' # store) => CasCurrent(last'.op, last'.a, last'.pre)]_vars
(* C04: every regular mutation carries a CAS above everything issued before *)
C04_CasIncreases ==
    [][\A c \in Colls, k \in Keys :
         (Changed(c, k) /\ last'.mut /\ last'.op \notin {"SetWithMeta", "DeleteWithMeta"})
            => store'[c][k].cas > clock]_vars
(* C05: Delete/Remove keep system xattrs, drop user xattrs and expiry; a write that gives a tombstone
   a body yields a document without the tombstone's xattrs (only those the call itself sets) *)
C05_DeleteShape ==
    [][(last'.op \in {"Delete", "Remove"} /\ last'.mut) =>
         LET d == store'[last'.coll][last'.key] IN
         IsTomb(d) /\ d.exp = "0" /\ d.xa = SysOnly(last'.pre.xa)]_vars
C05_ResurrectionDropsXattrs ==
    [][(IsTomb(last'.pre) /\ HasBody(store'[last'.coll][last'.key]) /\ ~last'.any
          /\ last'.op \notin {"SetWithMeta"}) =>
         \A x \in XNames : store'[last'.coll][last'.key].xa[x].t # "-" => last'.a.sets[x].t # "-"]_vars
C05_PurgeExactlyTombstones ==
    [][last'.op = "PurgeTombstones" =>
         \A c \in Colls, k \in Keys :
            store'[c][k] = IF IsTomb(store[c][k]) THEN AbsentDoc ELSE store[c][k]]_vars
(* C06: insert-only writes succeed iff the key has no body; refusal leaves the document untouched *)
IsInsert(op, a) == op \in {"Add", "AddRaw", "WriteResurrectionWithXattrs"}
                   \/ (op = "WriteCas" /\ a.hasbody /\ a.opt # "append" /\ (a.cas = 0 \/ a.opt \in {"addonly", "addonlyraw"}))
C06_InsertIffNoBody ==
    [][(IsInsert(last'.op, last'.a) /\ ~last'.any /\ last'.a.hasbody) =>
         /\ (HasBody(last'.pre) => store' = store)
         /\ ((~HasBody(last'.pre) /\ (last'.a.cas = 0 \/ last'.op # "WriteCas")) =>
                HasBody(store'[last'.coll][last'.key]))]_vars
C06_WriteWithXattrsCas0OnlyIfAbsent ==
    [][(last'.op = "WriteWithXattrs" /\ last'.a.cas = 0 /\ store' # store) => IsAbsent(last'.pre)]_vars
(* C07: an xattr write changes exactly the named xattrs and leaves the body intact *)
C07_OnlyNamedXattrs ==
    [][(last'.op \in {"SetXattrs", "UpdateXattrs", "RemoveXattrs", "DeleteSubDocPaths"} /\ last'.mut) =>
         LET d == store'[last'.coll][last'.key] IN
         /\ d.body = last'.pre.body
         /\ \A x \in XNames : (last'.a.sets[x].t = "-" /\ ~last'.a.dels[x]) => d.xa[x] = last'.pre.xa[x]]_vars
C07_BodyWriteKeepsXattrs ==
    [][(last'.op \in {"Set", "SetRaw", "Incr"} /\ HasBody(last'.pre) /\ last'.mut) =>
         store'[last'.coll][last'.key].xa = last'.pre.xa]_vars
C07_MacrosResolveToNewCasAndBody ==
    [][(last'.op \in XattrOps /\ last'.mut /\ ~last'.any) =>
         LET d == store'[last'.coll][last'.key] IN
         \A x \in XNames : last'.a.sets[x].t # "-" =>
            /\ (last'.a.sets[x].mc => d.xa[x].cas = d.cas)
            \* (the checksum of a body of length zero is the checksum of no body)
            /\ (last'.a.sets[x].mh => d.xa[x].crc = IF d.body = RawBody(<<>>) THEN NoBody ELSE d.body)]_vars
(* C11: an operation on one collection changes nothing in any other *)
C11_OtherCollectionsUnchanged ==
    [][last'.op # "PurgeTombstones" =>
         \A c \in Colls, k \in Keys : Changed(c, k) => (c = last'.coll /\ k = last'.key)]_vars
(* C17: every mutation of a key raises its revision number by exactly one (1 on creation) *)
C17_RevIncrementsByOne ==
    [][\A c \in Colls, k \in Keys :
         (Changed(c, k) /\ ~IsAbsent(store'[c][k])) =>
            \* (an Update whose callback touches the key performs two mutations - the touch and the write - in one call)
            IF last'.op = "Update" /\ last'.a.cb = "touchset" /\ HasBody(store[c][k])
            THEN store'[c][k].rev = store[c][k].rev + 2
            ELSE store'[c][k].rev = NextRev(store[c][k])]_vars
(* C18: a sub-document write changes only the addressed property *)
C18_OnlyAddressedProperty ==
    [][(last'.op \in {"WriteSubDoc", "SubdocInsert"} /\ last'.mut /\ HasBody(last'.pre) /\ ~last'.any) =>
         LET d == store'[last'.coll][last'.key] IN
         /\ d.body.k = "obj" /\ d.xa = last'.pre.xa
         /\ \A p \in Leaves : (p # last'.a.path /\ Parent(p) # last'.a.path) => d.body.o[p] = last'.pre.body.o[p]]_vars

(* state invariants *)
TombstoneIsNotJson == \A c \in Colls, k \in Keys : IsTomb(store[c][k]) => ~store[c][k].json
AbsentIsBlank == \A c \in Colls, k \in Keys : IsAbsent(store[c][k]) => store[c][k] = AbsentDoc
=============================================================================
