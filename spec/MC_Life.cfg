SPECIFICATION Spec
CONSTANTS
  MaxSteps = 4
VIEW View
CHECK_DEADLOCK FALSE
INVARIANTS
  CountEqualsOpenHandles
  DiskRegisteredIffOpen
  OpenHandleHasStore
  RunningFeedHasOpenStore
  DoneIffEnded
PROPERTIES
  DiskDataSurvivesClose
  OtherHandlesUnaffectedByClose
  FeedsEndOnlyForAReason
