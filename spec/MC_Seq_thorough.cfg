SPECIFICATION Spec
CONSTANTS
  Colls = {"c1", "c2"}
  Keys = {"k1"}
  MaxOps = 3
  OpSet <- AllOps
VIEW View
CHECK_DEADLOCK FALSE
INVARIANTS
  TombstoneIsNotJson
  AbsentIsBlank
PROPERTIES
  C01_ErrorLeavesUnchanged
  C02_AppliedOnlyIfCurrent
  C04_CasIncreases
  C05_DeleteShape
  C05_ResurrectionDropsXattrs
  C05_PurgeExactlyTombstones
  C06_InsertIffNoBody
  C06_WriteWithXattrsCas0OnlyIfAbsent
  C07_OnlyNamedXattrs
  C07_BodyWriteKeepsXattrs
  C07_MacrosResolveToNewCasAndBody
  C11_OtherCollectionsUnchanged
  C17_RevIncrementsByOne
  C18_OnlyAddressedProperty
