---- MODULE RosmarSeq_TTrace_1790985110 ----
EXTENDS RosmarSeq, Sequences, TLCExt, Toolbox, Naturals, TLC

_expression ==
    LET RosmarSeq_TEExpression == INSTANCE RosmarSeq_TEExpression
    IN RosmarSeq_TEExpression!expression
----

_trace ==
    LET RosmarSeq_TETrace == INSTANCE RosmarSeq_TETrace
    IN RosmarSeq_TETrace!trace
----

_inv ==
    ~(
        TLCGet("level") = Len(_TETrace)
        /\
        last = ([key |-> "k1", a |-> [key |-> "k1", exp |-> "0", pres |-> FALSE, casc |-> "zero", cas |-> 0, body |-> [o |-> ("v" :> "-" @@ "a" :> "-" @@ "n" :> "-" @@ "n.x" :> "-"), k |-> "none", n |-> 0, r |-> <<>>], btok |-> "", hasbody |-> FALSE, json |-> FALSE, opt |-> "", sets |-> [_s |-> [t |-> "-", mc |-> FALSE, mh |-> FALSE], _t |-> [t |-> "-", mc |-> FALSE, mh |-> FALSE], u |-> [t |-> "x1", mc |-> FALSE, mh |-> FALSE]], dels |-> [_s |-> FALSE, _t |-> FALSE, u |-> FALSE], db |-> FALSE, amt |-> 0, def |-> 0, path |-> "-", val |-> "", newcas |-> 1, newc |-> "hi", cb |-> ""], op |-> "WriteWithXattrs", coll |-> "c1", pre |-> [exp |-> "0", cas |-> 0, body |-> [o |-> ("v" :> "-" @@ "a" :> "-" @@ "n" :> "-" @@ "n.x" :> "-"), k |-> "raw", n |-> 0, r |-> <<"R1">>], json |-> FALSE, st |-> "doc", xa |-> [_s |-> [t |-> "-", cas |-> 0, crc |-> [o |-> ("v" :> "-" @@ "a" :> "-" @@ "n" :> "-" @@ "n.x" :> "-"), k |-> "nomacro", n |-> 0, r |-> <<>>]], _t |-> [t |-> "-", cas |-> 0, crc |-> [o |-> ("v" :> "-" @@ "a" :> "-" @@ "n" :> "-" @@ "n.x" :> "-"), k |-> "nomacro", n |-> 0, r |-> <<>>]], u |-> [t |-> "-", cas |-> 0, crc |-> [o |-> ("v" :> "-" @@ "a" :> "-" @@ "n" :> "-" @@ "n.x" :> "-"), k |-> "nomacro", n |-> 0, r |-> <<>>]]], rev |-> 1], ok |-> TRUE, mut |-> TRUE, any |-> FALSE])
        /\
        nops = (2)
        /\
        store = ([c1 |-> [k1 |-> [exp |-> "0", cas |-> 1, body |-> [o |-> ("v" :> "-" @@ "a" :> "-" @@ "n" :> "-" @@ "n.x" :> "-"), k |-> "raw", n |-> 0, r |-> <<"R1">>], json |-> FALSE, st |-> "doc", xa |-> [_s |-> [t |-> "-", cas |-> 0, crc |-> [o |-> ("v" :> "-" @@ "a" :> "-" @@ "n" :> "-" @@ "n.x" :> "-"), k |-> "nomacro", n |-> 0, r |-> <<>>]], _t |-> [t |-> "-", cas |-> 0, crc |-> [o |-> ("v" :> "-" @@ "a" :> "-" @@ "n" :> "-" @@ "n.x" :> "-"), k |-> "nomacro", n |-> 0, r |-> <<>>]], u |-> [t |-> "x1", cas |-> 0, crc |-> [o |-> ("v" :> "-" @@ "a" :> "-" @@ "n" :> "-" @@ "n.x" :> "-"), k |-> "nomacro", n |-> 0, r |-> <<>>]]], rev |-> 2]], c2 |-> [k1 |-> [exp |-> "0", cas |-> 0, body |-> [o |-> ("v" :> "-" @@ "a" :> "-" @@ "n" :> "-" @@ "n.x" :> "-"), k |-> "none", n |-> 0, r |-> <<>>], json |-> FALSE, st |-> "absent", xa |-> [_s |-> [t |-> "-", cas |-> 0, crc |-> [o |-> ("v" :> "-" @@ "a" :> "-" @@ "n" :> "-" @@ "n.x" :> "-"), k |-> "nomacro", n |-> 0, r |-> <<>>]], _t |-> [t |-> "-", cas |-> 0, crc |-> [o |-> ("v" :> "-" @@ "a" :> "-" @@ "n" :> "-" @@ "n.x" :> "-"), k |-> "nomacro", n |-> 0, r |-> <<>>]], u |-> [t |-> "-", cas |-> 0, crc |-> [o |-> ("v" :> "-" @@ "a" :> "-" @@ "n" :> "-" @@ "n.x" :> "-"), k |-> "nomacro", n |-> 0, r |-> <<>>]]], rev |-> 0]]])
        /\
        clock = (1)
    )
----

_init ==
    /\ nops = _TETrace[1].nops
    /\ store = _TETrace[1].store
    /\ clock = _TETrace[1].clock
    /\ last = _TETrace[1].last
----

_next ==
    /\ \E i,j \in DOMAIN _TETrace:
        /\ \/ /\ j = i + 1
              /\ i = TLCGet("level")
        /\ nops  = _TETrace[i].nops
        /\ nops' = _TETrace[j].nops
        /\ store  = _TETrace[i].store
        /\ store' = _TETrace[j].store
        /\ clock  = _TETrace[i].clock
        /\ clock' = _TETrace[j].clock
        /\ last  = _TETrace[i].last
        /\ last' = _TETrace[j].last

\* Uncomment the ASSUME below to write the states of the error trace
\* to the given file in Json format. Note that you can pass any tuple
\* to `JsonSerialize`. For example, a sub-sequence of _TETrace.
    \* ASSUME
    \*     LET J == INSTANCE Json
    \*         IN J!JsonSerialize("RosmarSeq_TTrace_1790985110.json", _TETrace)

=============================================================================

 Note that you can extract this module `RosmarSeq_TEExpression`
  to a dedicated file to reuse `expression` (the module in the 
  dedicated `RosmarSeq_TEExpression.tla` file takes precedence 
  over the module `RosmarSeq_TEExpression` below).

---- MODULE RosmarSeq_TEExpression ----
EXTENDS RosmarSeq, Sequences, TLCExt, Toolbox, Naturals, TLC

expression == 
    [
        \* To hide variables of the `RosmarSeq` spec from the error trace,
        \* remove the variables below.  The trace will be written in the order
        \* of the fields of this record.
        nops |-> nops
        ,store |-> store
        ,clock |-> clock
        ,last |-> last
        
        \* Put additional constant-, state-, and action-level expressions here:
        \* ,_stateNumber |-> _TEPosition
        \* ,_nopsUnchanged |-> nops = nops'
        
        \* Format the `nops` variable as Json value.
        \* ,_nopsJson |->
        \*     LET J == INSTANCE Json
        \*     IN J!ToJson(nops)
        
        \* Lastly, you may build expressions over arbitrary sets of states by
        \* leveraging the _TETrace operator.  For example, this is how to
        \* count the number of times a spec variable changed up to the current
        \* state in the trace.
        \* ,_nopsModCount |->
        \*     LET F[s \in DOMAIN _TETrace] ==
        \*         IF s = 1 THEN 0
        \*         ELSE IF _TETrace[s].nops # _TETrace[s-1].nops
        \*             THEN 1 + F[s-1] ELSE F[s-1]
        \*     IN F[_TEPosition - 1]
    ]

=============================================================================



Parsing and semantic processing can take forever if the trace below is long.
 In this case, it is advised to uncomment the module below to deserialize the
 trace from a generated binary file.

\*
\*---- MODULE RosmarSeq_TETrace ----
\*EXTENDS RosmarSeq, IOUtils, TLC
\*
\*trace == IODeserialize("RosmarSeq_TTrace_1790985110.bin", TRUE)
\*
\*=============================================================================
\*

---- MODULE RosmarSeq_TETrace ----
EXTENDS RosmarSeq, TLC

trace == 
    <<
    ([last |-> [key |-> "-", a |-> [key |-> "k1", exp |-> "0", pres |-> FALSE, casc |-> "zero", cas |-> 0, body |-> [o |-> ("v" :> "-" @@ "a" :> "-" @@ "n" :> "-" @@ "n.x" :> "-"), k |-> "none", n |-> 0, r |-> <<>>], btok |-> "", hasbody |-> FALSE, json |-> FALSE, opt |-> "", sets |-> [_s |-> [t |-> "-", mc |-> FALSE, mh |-> FALSE], _t |-> [t |-> "-", mc |-> FALSE, mh |-> FALSE], u |-> [t |-> "-", mc |-> FALSE, mh |-> FALSE]], dels |-> [_s |-> FALSE, _t |-> FALSE, u |-> FALSE], db |-> FALSE, amt |-> 0, def |-> 0, path |-> "-", val |-> "", newcas |-> 0, newc |-> "hi", cb |-> ""], op |-> "-", coll |-> "-", pre |-> [exp |-> "0", cas |-> 0, body |-> [o |-> ("v" :> "-" @@ "a" :> "-" @@ "n" :> "-" @@ "n.x" :> "-"), k |-> "none", n |-> 0, r |-> <<>>], json |-> FALSE, st |-> "absent", xa |-> [_s |-> [t |-> "-", cas |-> 0, crc |-> [o |-> ("v" :> "-" @@ "a" :> "-" @@ "n" :> "-" @@ "n.x" :> "-"), k |-> "nomacro", n |-> 0, r |-> <<>>]], _t |-> [t |-> "-", cas |-> 0, crc |-> [o |-> ("v" :> "-" @@ "a" :> "-" @@ "n" :> "-" @@ "n.x" :> "-"), k |-> "nomacro", n |-> 0, r |-> <<>>]], u |-> [t |-> "-", cas |-> 0, crc |-> [o |-> ("v" :> "-" @@ "a" :> "-" @@ "n" :> "-" @@ "n.x" :> "-"), k |-> "nomacro", n |-> 0, r |-> <<>>]]], rev |-> 0], ok |-> TRUE, mut |-> FALSE, any |-> FALSE],nops |-> 0,store |-> [c1 |-> [k1 |-> [exp |-> "0", cas |-> 0, body |-> [o |-> ("v" :> "-" @@ "a" :> "-" @@ "n" :> "-" @@ "n.x" :> "-"), k |-> "none", n |-> 0, r |-> <<>>], json |-> FALSE, st |-> "absent", xa |-> [_s |-> [t |-> "-", cas |-> 0, crc |-> [o |-> ("v" :> "-" @@ "a" :> "-" @@ "n" :> "-" @@ "n.x" :> "-"), k |-> "nomacro", n |-> 0, r |-> <<>>]], _t |-> [t |-> "-", cas |-> 0, crc |-> [o |-> ("v" :> "-" @@ "a" :> "-" @@ "n" :> "-" @@ "n.x" :> "-"), k |-> "nomacro", n |-> 0, r |-> <<>>]], u |-> [t |-> "-", cas |-> 0, crc |-> [o |-> ("v" :> "-" @@ "a" :> "-" @@ "n" :> "-" @@ "n.x" :> "-"), k |-> "nomacro", n |-> 0, r |-> <<>>]]], rev |-> 0]], c2 |-> [k1 |-> [exp |-> "0", cas |-> 0, body |-> [o |-> ("v" :> "-" @@ "a" :> "-" @@ "n" :> "-" @@ "n.x" :> "-"), k |-> "none", n |-> 0, r |-> <<>>], json |-> FALSE, st |-> "absent", xa |-> [_s |-> [t |-> "-", cas |-> 0, crc |-> [o |-> ("v" :> "-" @@ "a" :> "-" @@ "n" :> "-" @@ "n.x" :> "-"), k |-> "nomacro", n |-> 0, r |-> <<>>]], _t |-> [t |-> "-", cas |-> 0, crc |-> [o |-> ("v" :> "-" @@ "a" :> "-" @@ "n" :> "-" @@ "n.x" :> "-"), k |-> "nomacro", n |-> 0, r |-> <<>>]], u |-> [t |-> "-", cas |-> 0, crc |-> [o |-> ("v" :> "-" @@ "a" :> "-" @@ "n" :> "-" @@ "n.x" :> "-"), k |-> "nomacro", n |-> 0, r |-> <<>>]]], rev |-> 0]]],clock |-> 0]),
    ([last |-> [key |-> "k1", a |-> [key |-> "k1", exp |-> "0", pres |-> FALSE, casc |-> "zero", cas |-> 0, body |-> [o |-> ("v" :> "-" @@ "a" :> "-" @@ "n" :> "-" @@ "n.x" :> "-"), k |-> "raw", n |-> 0, r |-> <<"R1">>], btok |-> "R1", hasbody |-> TRUE, json |-> FALSE, opt |-> "", sets |-> [_s |-> [t |-> "-", mc |-> FALSE, mh |-> FALSE], _t |-> [t |-> "-", mc |-> FALSE, mh |-> FALSE], u |-> [t |-> "-", mc |-> FALSE, mh |-> FALSE]], dels |-> [_s |-> FALSE, _t |-> FALSE, u |-> FALSE], db |-> FALSE, amt |-> 0, def |-> 0, path |-> "-", val |-> "", newcas |-> 0, newc |-> "mid", cb |-> ""], op |-> "SetWithMeta", coll |-> "c1", pre |-> [exp |-> "0", cas |-> 0, body |-> [o |-> ("v" :> "-" @@ "a" :> "-" @@ "n" :> "-" @@ "n.x" :> "-"), k |-> "none", n |-> 0, r |-> <<>>], json |-> FALSE, st |-> "absent", xa |-> [_s |-> [t |-> "-", cas |-> 0, crc |-> [o |-> ("v" :> "-" @@ "a" :> "-" @@ "n" :> "-" @@ "n.x" :> "-"), k |-> "nomacro", n |-> 0, r |-> <<>>]], _t |-> [t |-> "-", cas |-> 0, crc |-> [o |-> ("v" :> "-" @@ "a" :> "-" @@ "n" :> "-" @@ "n.x" :> "-"), k |-> "nomacro", n |-> 0, r |-> <<>>]], u |-> [t |-> "-", cas |-> 0, crc |-> [o |-> ("v" :> "-" @@ "a" :> "-" @@ "n" :> "-" @@ "n.x" :> "-"), k |-> "nomacro", n |-> 0, r |-> <<>>]]], rev |-> 0], ok |-> TRUE, mut |-> TRUE, any |-> FALSE],nops |-> 1,store |-> [c1 |-> [k1 |-> [exp |-> "0", cas |-> 0, body |-> [o |-> ("v" :> "-" @@ "a" :> "-" @@ "n" :> "-" @@ "n.x" :> "-"), k |-> "raw", n |-> 0, r |-> <<"R1">>], json |-> FALSE, st |-> "doc", xa |-> [_s |-> [t |-> "-", cas |-> 0, crc |-> [o |-> ("v" :> "-" @@ "a" :> "-" @@ "n" :> "-" @@ "n.x" :> "-"), k |-> "nomacro", n |-> 0, r |-> <<>>]], _t |-> [t |-> "-", cas |-> 0, crc |-> [o |-> ("v" :> "-" @@ "a" :> "-" @@ "n" :> "-" @@ "n.x" :> "-"), k |-> "nomacro", n |-> 0, r |-> <<>>]], u |-> [t |-> "-", cas |-> 0, crc |-> [o |-> ("v" :> "-" @@ "a" :> "-" @@ "n" :> "-" @@ "n.x" :> "-"), k |-> "nomacro", n |-> 0, r |-> <<>>]]], rev |-> 1]], c2 |-> [k1 |-> [exp |-> "0", cas |-> 0, body |-> [o |-> ("v" :> "-" @@ "a" :> "-" @@ "n" :> "-" @@ "n.x" :> "-"), k |-> "none", n |-> 0, r |-> <<>>], json |-> FALSE, st |-> "absent", xa |-> [_s |-> [t |-> "-", cas |-> 0, crc |-> [o |-> ("v" :> "-" @@ "a" :> "-" @@ "n" :> "-" @@ "n.x" :> "-"), k |-> "nomacro", n |-> 0, r |-> <<>>]], _t |-> [t |-> "-", cas |-> 0, crc |-> [o |-> ("v" :> "-" @@ "a" :> "-" @@ "n" :> "-" @@ "n.x" :> "-"), k |-> "nomacro", n |-> 0, r |-> <<>>]], u |-> [t |-> "-", cas |-> 0, crc |-> [o |-> ("v" :> "-" @@ "a" :> "-" @@ "n" :> "-" @@ "n.x" :> "-"), k |-> "nomacro", n |-> 0, r |-> <<>>]]], rev |-> 0]]],clock |-> 0]),
    ([last |-> [key |-> "k1", a |-> [key |-> "k1", exp |-> "0", pres |-> FALSE, casc |-> "zero", cas |-> 0, body |-> [o |-> ("v" :> "-" @@ "a" :> "-" @@ "n" :> "-" @@ "n.x" :> "-"), k |-> "none", n |-> 0, r |-> <<>>], btok |-> "", hasbody |-> FALSE, json |-> FALSE, opt |-> "", sets |-> [_s |-> [t |-> "-", mc |-> FALSE, mh |-> FALSE], _t |-> [t |-> "-", mc |-> FALSE, mh |-> FALSE], u |-> [t |-> "x1", mc |-> FALSE, mh |-> FALSE]], dels |-> [_s |-> FALSE, _t |-> FALSE, u |-> FALSE], db |-> FALSE, amt |-> 0, def |-> 0, path |-> "-", val |-> "", newcas |-> 1, newc |-> "hi", cb |-> ""], op |-> "WriteWithXattrs", coll |-> "c1", pre |-> [exp |-> "0", cas |-> 0, body |-> [o |-> ("v" :> "-" @@ "a" :> "-" @@ "n" :> "-" @@ "n.x" :> "-"), k |-> "raw", n |-> 0, r |-> <<"R1">>], json |-> FALSE, st |-> "doc", xa |-> [_s |-> [t |-> "-", cas |-> 0, crc |-> [o |-> ("v" :> "-" @@ "a" :> "-" @@ "n" :> "-" @@ "n.x" :> "-"), k |-> "nomacro", n |-> 0, r |-> <<>>]], _t |-> [t |-> "-", cas |-> 0, crc |-> [o |-> ("v" :> "-" @@ "a" :> "-" @@ "n" :> "-" @@ "n.x" :> "-"), k |-> "nomacro", n |-> 0, r |-> <<>>]], u |-> [t |-> "-", cas |-> 0, crc |-> [o |-> ("v" :> "-" @@ "a" :> "-" @@ "n" :> "-" @@ "n.x" :> "-"), k |-> "nomacro", n |-> 0, r |-> <<>>]]], rev |-> 1], ok |-> TRUE, mut |-> TRUE, any |-> FALSE],nops |-> 2,store |-> [c1 |-> [k1 |-> [exp |-> "0", cas |-> 1, body |-> [o |-> ("v" :> "-" @@ "a" :> "-" @@ "n" :> "-" @@ "n.x" :> "-"), k |-> "raw", n |-> 0, r |-> <<"R1">>], json |-> FALSE, st |-> "doc", xa |-> [_s |-> [t |-> "-", cas |-> 0, crc |-> [o |-> ("v" :> "-" @@ "a" :> "-" @@ "n" :> "-" @@ "n.x" :> "-"), k |-> "nomacro", n |-> 0, r |-> <<>>]], _t |-> [t |-> "-", cas |-> 0, crc |-> [o |-> ("v" :> "-" @@ "a" :> "-" @@ "n" :> "-" @@ "n.x" :> "-"), k |-> "nomacro", n |-> 0, r |-> <<>>]], u |-> [t |-> "x1", cas |-> 0, crc |-> [o |-> ("v" :> "-" @@ "a" :> "-" @@ "n" :> "-" @@ "n.x" :> "-"), k |-> "nomacro", n |-> 0, r |-> <<>>]]], rev |-> 2]], c2 |-> [k1 |-> [exp |-> "0", cas |-> 0, body |-> [o |-> ("v" :> "-" @@ "a" :> "-" @@ "n" :> "-" @@ "n.x" :> "-"), k |-> "none", n |-> 0, r |-> <<>>], json |-> FALSE, st |-> "absent", xa |-> [_s |-> [t |-> "-", cas |-> 0, crc |-> [o |-> ("v" :> "-" @@ "a" :> "-" @@ "n" :> "-" @@ "n.x" :> "-"), k |-> "nomacro", n |-> 0, r |-> <<>>]], _t |-> [t |-> "-", cas |-> 0, crc |-> [o |-> ("v" :> "-" @@ "a" :> "-" @@ "n" :> "-" @@ "n.x" :> "-"), k |-> "nomacro", n |-> 0, r |-> <<>>]], u |-> [t |-> "-", cas |-> 0, crc |-> [o |-> ("v" :> "-" @@ "a" :> "-" @@ "n" :> "-" @@ "n.x" :> "-"), k |-> "nomacro", n |-> 0, r |-> <<>>]]], rev |-> 0]]],clock |-> 1])
    >>
----


=============================================================================

---- CONFIG RosmarSeq_TTrace_1790985110 ----
CONSTANTS
    Colls = { "c1" , "c2" }
    Keys = { "k1" }
    MaxOps = 3
    OpSet <- AllOps

INVARIANT
    _inv

CHECK_DEADLOCK
    \* CHECK_DEADLOCK off because of PROPERTY or INVARIANT above.
    FALSE

INIT
    _init

NEXT
    _next

CONSTANT
    _TETrace <- _trace

ALIAS
    _expression
=============================================================================
\* Generated on Fri Oct 02 23:52:06 UTC 2026