------------------------------ MODULE SeqTrace ------------------------------
(***************************************************************************)
(* TraceLog validation of the sequential family: every recorded step of the   *)
(* real code (operation, abstracted arguments, result, and the projection  *)
(* of the observable state after the step through every read API, the      *)
(* live feeds and a backfill) must be a step RosmarStore allows.           *)
(*                                                                         *)
(* Many traces are concatenated in one file; a "reset" line starts a new   *)
(* one.  A step the specification does not allow prints one FAIL tuple     *)
(* naming the listed properties it is filed under, the model is then       *)
(* re-synchronised with the observation, and validation continues, so the  *)
(* whole corpus is always examined.                                        *)
(***************************************************************************)
EXTENDS RosmarStore, Json, IOUtils, SequencesExt, FiniteSetsExt

TraceFile == IOEnv.VERIF_TRACE
BodyFile  == IOEnv.VERIF_BODIES
TraceLog   == ndJsonDeserialize(TraceFile)
BodyTab == JsonDeserialize(BodyFile)

Colls == {"c0", "c1", "c2"}
Keys  == {"k1", "k2"}
CollId(c) == CASE c = "c0" -> 0 [] c = "c1" -> 1 [] c = "c2" -> 2

VARIABLES l,      \* next trace line
          docs,   \* the specification's documents  [Colls -> [Keys -> Doc]]
          obs,    \* last recorded observation of every key
          dumps,  \* last recorded backfill of every collection
          clock,  \* highest CAS issued by the regular write API so far (rank)
          start,  \* backfill start CAS of this trace, per collection
          nfail,  \* number of FAIL tuples printed so far
          evlog,  \* per collection: <<line, event>> of every mutation so far (concurrent traces)
          verlog, \* per collection: <<line, event>> describing every version a key has had
          auxs,   \* last recorded result of every SQL query / view query, per collection and kind
          vdef    \* which variant of the design document each collection has ("A" / "B", see aux.go)
vars == <<l, docs, obs, dumps, clock, start, nfail, evlog, verlog, auxs, vdef>>

B(tok) == BodyTab[tok]
XV(x)  == [t |-> x.t, cas |-> x.cas, crc |-> B(x.crc)]
XaOf(m) == [x \in XNames |-> XV(m[x])]
ArgsOf(a) == [a EXCEPT !.body = B(a.body)]
EvOf(e) == [op |-> e.op, key |-> e.key, body |-> B(e.body), xa |-> XaOf(e.xa), json |-> e.json,
            xf |-> e.xf, cas |-> e.cas, exp |-> e.exp, rev |-> e.rev, coll |-> e.coll]
EvsOf(s) == IF Len(s) = 0 THEN <<>> ELSE [i \in 1..Len(s) |-> EvOf(s[i])]
ReturnsCas == {"UpdateXattrDeleteBody", "WriteCas", "Remove", "Update", "SetXattrs", "UpdateXattrs", "WriteWithXattrs",
               "WriteTombstoneWithXattrs", "WriteResurrectionWithXattrs", "WriteUpdateWithXattrs",
               "WriteSubDoc", "Touch", "GetAndTouchRaw", "Get", "GetRaw", "GetSubDocRaw"}

NoXaObs == [x \in XNames |-> [t |-> "-", cas |-> 0, crc |-> "b1"]]
AbsentObs ==
    [raw |-> [cls |-> "missing", body |-> "b0", cas |-> 0], ex |-> FALSE,
     exp |-> [cls |-> "missing", exp |-> "0"],
     gwx |-> [cls |-> "missing", body |-> "b0", xa |-> NoXaObs, cas |-> 0],
     gx  |-> [cls |-> "missing", xa |-> NoXaObs, cas |-> 0, rev |-> 0, rev2 |-> 0, crc |-> "b1"]]

(* The document an observation describes (the JSON flag is not readable    *)
(* through the key-value API; it is observed on feed events).              *)
DocOf(o, js) ==
    IF o.gx.cls = "missing" THEN AbsentDoc
    ELSE [st |-> "doc", body |-> IF o.raw.cls = "ok" THEN B(o.raw.body) ELSE NoBody, json |-> js,
          cas |-> o.gx.cas, exp |-> IF o.exp.cls = "ok" THEN o.exp.exp ELSE "0",
          xa |-> XaOf(o.gx.xa), rev |-> o.gx.rev]

(* C01 / C05: all read APIs agree about one document.                      *)
ReadsCoherent(o) ==
    IF o.gx.cls = "missing"
    THEN o.raw.cls = "missing" /\ ~o.ex /\ o.exp.cls = "missing" /\ o.gwx.cls = "missing"
    ELSE /\ o.gx.cls = "ok" /\ o.gx.rev = o.gx.rev2
         /\ IF o.raw.cls = "ok"
            THEN /\ o.ex /\ o.exp.cls = "ok" /\ o.raw.cas = o.gx.cas
                 /\ o.gwx.cls = "ok" /\ o.gwx.body = o.raw.body /\ o.gwx.cas = o.gx.cas
                 \* (the checksum of a body of length zero is the checksum of no body: token b0)
                 /\ o.gwx.xa = o.gx.xa /\ o.gx.crc = (IF B(o.raw.body) = RawBody(<<>>) THEN "b0" ELSE o.raw.body)
            ELSE /\ o.raw.cls = "missing" /\ ~o.ex /\ o.exp.cls \in {"ok", "missing"}
                 /\ o.gx.crc = "b0"
                 /\ IF \E x \in XNames : o.gx.xa[x].t # "-"
                    THEN o.gwx.cls = "ok" /\ o.gwx.body = "b0" /\ o.gwx.xa = o.gx.xa /\ o.gwx.cas = o.gx.cas
                    ELSE o.gwx.cls = "missing"

NoJson(d) == [d EXCEPT !.json = FALSE]

Fail(props, e, what, exp, got) ==
    PrintT(<<"FAIL", props, e.tr, e.i, e.mode, e.op, what, exp, got>>)

BB(b) == CASE b.k = "raw" -> <<"raw", b.r>> [] b.k = "num" -> <<"num", b.n>>
            [] b.k = "obj" -> <<"obj", b.o["v"], b.o["a"], b.o["n"], b.o["n.x"]>> [] OTHER -> <<b.k>>
Brief(d) == <<Class(d), BB(d.body), d.cas, d.exp, d.rev,
              [x \in XNames |-> <<d.xa[x].t, d.xa[x].cas, BB(d.xa[x].crc)>>]>>

BriefEv(v) == IF "body" \in DOMAIN v
              THEN <<v.op, v.key, BB(v.body), v.json, v.xf, v.cas, v.exp, v.rev, v.coll,
                     [x \in XNames |-> <<v.xa[x].t, v.xa[x].cas, BB(v.xa[x].crc)>>]>>
              ELSE <<v.op>>
BriefEvs(s) == [i \in 1..Len(s) |-> BriefEv(s[i])]

(* Properties a deviation of this step is filed under.                     *)
PropsOf(e, pre, post) ==
    {"C01"}
    \cup (IF e.op \in Conditional THEN {"C02"} ELSE {})
    \cup (IF e.op \in Inserters \/ (e.op = "WriteCas" /\ (e.a.cas = 0 \/ e.a.opt \in {"addonly", "addonlyraw"}))
             \/ (e.op = "WriteWithXattrs" /\ e.a.cas = 0) THEN {"C06"} ELSE {})
    \cup (IF e.op \in XattrOps THEN {"C07"} ELSE {})
    \cup (IF e.op \in SubdocOps THEN {"C18"} ELSE {})
    \cup (IF IsTomb(pre) \/ IsTomb(post) THEN {"C05"} ELSE {})
    \cup (IF e.p \notin {"-", "setup"} THEN {"C03"} ELSE {})

---------------------------------------------------------------------------
(* SQL queries over $_keyspace (C19) and view queries (C12) of one collection *)
AuxKinds == {"q-all", "q-inter", "q-v", "q-vraw", "q-s", "q-null", "q-noxa", "view", "viewdesc", "viewlimit", "viewkey", "viewcount", "ddoc",
             "viewxend", "viewiend", "viewfrom", "viewxenddesc", "viewfromdesc"}
RowOf(r) == [id |-> r.id, body |-> B(r.body), xa |-> XaOf(r.xa), vals |-> r.vals]
RowsOf(s) == IF Len(s) = 0 THEN <<>> ELSE [i \in 1..Len(s) |-> RowOf(s[i])]
(* JSON collation of the tokens that occur as emitted key components: null, then strings (letters compared without case first) *)
TokRank(t) == CASE t = "-" -> 0 [] t = "J1" -> 1 [] t = "J2" -> 2 [] t = "J3" -> 3 [] t = "J4" -> 4 [] t = "JB" -> 5
                [] t = "s1" -> 6 [] t = "s2" -> 7 [] t = "x1" -> 1 [] t = "x2" -> 2 [] OTHER -> 9
KeySeq(S) == IF S = {} THEN <<>> ELSE IF S = {"k1"} THEN <<"k1">> ELSE IF S = {"k2"} THEN <<"k2">> ELSE <<"k1", "k2">>
QRow(k, d) == [id |-> k, body |-> d.body, xa |-> d.xa, vals |-> <<>>]
IdRow(k) == [id |-> k, body |-> NoBody, xa |-> NoXa, vals |-> <<>>]
VV(d) == IF d.json /\ d.body.k = "obj" THEN d.body.o["v"] ELSE "-"
VA(d) == IF d.json /\ d.body.k = "obj" THEN d.body.o["a"] ELSE "-"
VRow(k, d) == [id |-> k, body |-> NoBody, xa |-> NoXa, vals |-> <<VV(d), d.xa["_s"].t, VA(d), d.xa["u"].t, d.xa["_t"].t>>]
Indexed(d) == HasBody(d) \/ HasXattrs(d)
(* a body that is flagged JSON but is not JSON (a caller error): what the map function makes of it is not specified *)
BadJson(d) == HasBody(d) /\ d.json /\ d.body.k \in {"raw", "unk"}
(* view rows in JSON collation order of the emitted key, then document id *)
Emits(d, variant) == variant = "A" \/ VV(d) = "J1" \/ d.xa["_s"].t # "-"
ViewSeqV(ds, variant) ==
    LET S == {k \in Keys : Indexed(ds[k]) /\ ~BadJson(ds[k]) /\ Emits(ds[k], variant)}
        less(a, b) == \/ TokRank(VV(ds[a])) < TokRank(VV(ds[b]))
                      \/ (VV(ds[a]) = VV(ds[b]) /\ TokRank(ds[a].xa["_s"].t) < TokRank(ds[b].xa["_s"].t))
                      \/ (VV(ds[a]) = VV(ds[b]) /\ ds[a].xa["_s"].t = ds[b].xa["_s"].t /\ a = "k1") IN
    IF S = {"k1", "k2"} THEN (IF less("k1", "k2") THEN <<VRow("k1", ds["k1"]), VRow("k2", ds["k2"])>>
                              ELSE <<VRow("k2", ds["k2"]), VRow("k1", ds["k1"])>>)
    ELSE IF S = {} THEN <<>> ELSE LET k == CHOOSE x \in S : TRUE IN <<VRow(k, ds[k])>>
Rev(s) == IF Len(s) = 0 THEN <<>> ELSE [i \in 1..Len(s) |-> s[Len(s) + 1 - i]]
SelSeq(s, P(_)) == SelectSeq(s, P)
(* position of a view row relative to the key [tag, "J1", null] in JSON collation *)
CmpPivot(r) == IF TokRank(r.vals[1]) < 1 THEN 0 - 1 ELSE IF TokRank(r.vals[1]) > 1 THEN 1
               ELSE IF TokRank(r.vals[2]) = 0 THEN 0 ELSE 1
ExpectedAuxV(kind, ds, variant) ==
    LET ViewSeq(x) == ViewSeqV(x, variant) IN
    CASE kind \in {"q-all", "q-inter"} -> LET ks == KeySeq({k \in Keys : HasBody(ds[k])}) IN
                           IF ks = <<>> THEN <<>> ELSE [i \in 1..Len(ks) |-> QRow(ks[i], ds[ks[i]])]
      [] kind \in {"q-v", "q-vraw"} -> LET ks == KeySeq({k \in Keys : HasBody(ds[k]) /\ ds[k].body.k = "obj" /\ ds[k].body.o["v"] = "J1"}) IN
                         IF ks = <<>> THEN <<>> ELSE [i \in 1..Len(ks) |-> IdRow(ks[i])]
      [] kind = "q-s" -> LET ks == KeySeq({k \in Keys : HasBody(ds[k]) /\ ds[k].xa["_s"].t = "x1"}) IN
                         IF ks = <<>> THEN <<>> ELSE [i \in 1..Len(ks) |-> IdRow(ks[i])]
      [] kind = "q-noxa" -> LET ks == KeySeq({k \in Keys : HasBody(ds[k]) /\ ~HasXattrs(ds[k])}) IN
                            IF ks = <<>> THEN <<>> ELSE [i \in 1..Len(ks) |-> IdRow(ks[i])]
      [] kind = "q-null" -> LET ks == KeySeq({k \in Keys : HasBody(ds[k])}) IN
                            IF ks = <<>> THEN <<>>
                            ELSE [i \in 1..Len(ks) |-> [id |-> ks[i], body |-> NoBody, xa |-> NoXa, vals |-> <<ds[ks[i]].xa["_s"].t>>]]
      [] kind \in {"view", "viewfresh", "viewlate", "viewpost", "viewcustom", "viewquery"} -> ViewSeq(ds)
      \* ranges with one end exactly on the emitted key [tag, "J1", null]
      [] kind = "viewxend" -> SelSeq(ViewSeq(ds), LAMBDA r : CmpPivot(r) < 0)
      [] kind = "viewiend" -> SelSeq(ViewSeq(ds), LAMBDA r : CmpPivot(r) <= 0)
      [] kind = "viewfrom" -> SelSeq(ViewSeq(ds), LAMBDA r : CmpPivot(r) >= 0)
      [] kind = "viewxenddesc" -> Rev(SelSeq(ViewSeq(ds), LAMBDA r : CmpPivot(r) > 0))
      [] kind = "viewfromdesc" -> Rev(SelSeq(ViewSeq(ds), LAMBDA r : CmpPivot(r) <= 0))
      [] kind = "viewdesc" -> Rev(ViewSeq(ds))
      [] kind = "viewlimit" -> IF ViewSeq(ds) = <<>> THEN <<>> ELSE <<ViewSeq(ds)[1]>>
      [] kind = "viewkey" -> SelSeq(ViewSeq(ds), LAMBDA r : r.vals[1] = "J1" /\ r.vals[2] = "-")
      [] kind = "ddoc" -> <<[id |-> "vd", body |-> NoBody, xa |-> NoXa, vals |-> <<variant, variant, "3">>]>>   \* GetDDoc, GetDDocs ("vd", "ld" and "pd")
      [] OTHER -> <<>>
BriefRows(s) == [i \in 1..Len(s) |-> <<s[i].id, BB(s[i].body), s[i].vals, [x \in XNames |-> s[i].xa[x].t]>>]
CountOKV(rows, ds, variant) ==
    LET n == Len(ViewSeqV(ds, variant)) IN
    \/ (n = 0 /\ rows = <<>>)
    \/ (Len(rows) = 1 /\ Len(rows[1].vals) = 3 /\ rows[1].vals[3] = ToString(n))

Init == /\ l = 1
        /\ docs = [c \in Colls |-> [k \in Keys |-> AbsentDoc]]
        /\ obs = [c \in Colls |-> [k \in Keys |-> AbsentObs]]
        /\ dumps = [c \in Colls |-> <<>>]
        /\ clock = 0
        /\ start = [c \in Colls |-> 0]
        /\ nfail = 0
        /\ evlog = [c \in Colls |-> <<>>]
        /\ verlog = [c \in Colls |-> <<>>]
        /\ auxs = [c \in Colls |-> [kd \in AuxKinds |-> <<>>]]
        /\ vdef = [c \in Colls |-> "A"]

Reset(e) ==
    /\ docs' = [c \in Colls |-> [k \in Keys |-> AbsentDoc]]
    /\ obs' = [c \in Colls |-> [k \in Keys |-> AbsentObs]]
    /\ dumps' = [c \in Colls |-> <<>>]
    /\ clock' = 0
    /\ start' = [c \in Colls |-> e.start[c]]
    /\ nfail' = nfail
    /\ evlog' = [c \in Colls |-> <<>>]
    /\ verlog' = [c \in Colls |-> <<>>]
    /\ auxs' = [c \in Colls |-> [kd \in AuxKinds |-> <<>>]]
    /\ vdef' = [c \in Colls |-> "A"]

(* new observation table after line e *)
NewObs(e) ==
    [c \in Colls |-> [k \in Keys |->
        IF \E i \in 1..Len(e.post) : e.post[i].c = c /\ e.post[i].key = k
        THEN e.post[CHOOSE i \in 1..Len(e.post) : e.post[i].c = c /\ e.post[i].key = k].d
        ELSE obs[c][k]]]
Changed(e) == {<<e.post[i].c, e.post[i].key>> : i \in 1..Len(e.post)}

NewDumps(e) ==
    [c \in Colls |->
        IF \E i \in 1..Len(e.dump) : e.dump[i].c = c
        THEN EvsOf(e.dump[CHOOSE i \in 1..Len(e.dump) : e.dump[i].c = c].evs)
        ELSE dumps[c]]
DumpLogged(e) == {e.dump[i].c : i \in 1..Len(e.dump)}

NewAuxs(e) ==
    [c \in Colls |-> [kd \in AuxKinds |->
        IF \E i \in 1..Len(e.aux) : e.aux[i].c = c /\ e.aux[i].kind = kd
        THEN LET a == e.aux[CHOOSE i \in 1..Len(e.aux) : e.aux[i].c = c /\ e.aux[i].kind = kd] IN
             IF a.err = "" THEN RowsOf(a.rows) ELSE <<[id |-> "error: " \o a.err, body |-> NoBody, xa |-> NoXa, vals |-> <<>>]>>
        ELSE auxs[c][kd]]]
HasAux(e) == Len(e.aux) > 0 \/ \E c \in Colls, kd \in AuxKinds : auxs[c][kd] # <<>>

LiveOf(e, c) == EvsOf(e.live[CHOOSE i \in 1..Len(e.live) : e.live[i].c = c].evs)

(* json flag a backfill reports for key k, if it lists it *)
DumpJson(dump, k, dflt) ==
    IF \E i \in 1..Len(dump) : dump[i].key = k /\ dump[i].op \in {"mut", "del"}
    THEN dump[CHOOSE i \in 1..Len(dump) : dump[i].key = k /\ dump[i].op \in {"mut", "del"}].json
    ELSE dflt

(* expected backfill of collection c for the documents ds: begin marker,   *)
(* one event per document with cas >= start in CAS order, end marker       *)
SortedKeys(ds, s0) ==
    LET ks == {k \in Keys : ~IsAbsent(ds[k]) /\ ds[k].cas >= s0} IN
    IF ks = {} THEN <<>>
    ELSE IF Cardinality(ks) = 1 THEN <<CHOOSE k \in ks : TRUE>>
    ELSE LET lo == CHOOSE k \in ks : \A k2 \in ks : ds[k].cas <= ds[k2].cas
             hi == CHOOSE k \in ks \ {lo} : TRUE IN <<lo, hi>>
ExpectedDump(c, ds, s0) ==
    LET sk == SortedKeys(ds, s0) IN
    IF sk = <<>> THEN <<>> ELSE [i \in 1..Len(sk) |-> EventOf(sk[i], ds[sk[i]], CollId(c))]
DumpBody(dump) ==
    IF Len(dump) >= 2 /\ dump[1].op = "begin" /\ dump[Len(dump)].op = "end"
    THEN SubSeq(dump, 2, Len(dump) - 1) ELSE <<[op |-> "malformed"]>>

SumOver(S, f(_)) == FoldSet(LAMBDA x, acc : acc + f(x), 0, S)

Purged(ds) == [c \in Colls |-> [k \in Keys |-> IF IsTomb(ds[c][k]) THEN AbsentDoc ELSE ds[c][k]]]

Call(e) ==
    LET c    == e.coll
        k    == e.a.key
        a    == ArgsOf(e.a)
        isPurge == e.op = "PurgeTombstones"
        pre  == docs[c][k]
        no   == NewObs(e)
        nd   == NewDumps(e)
        postObs == DocOf(no[c][k], pre.json)
        n    == IF postObs.cas # pre.cas THEN postObs.cas ELSE clock + 1
        outs == Outcomes(e.op, a, pre, n)
        retOK(o) == /\ (o.rcas = "post" /\ e.op \in ReturnsCas => e.r.cas = o.doc.cas)
                    /\ (o.rcas = "pre" /\ e.op \in ReturnsCas => e.r.cas = pre.cas)
                    /\ (e.op \in {"Add", "AddRaw"} => e.r.flag = o.flag)
                    /\ (e.op = "Incr" /\ o.ok => e.r.num = o.num)
                    /\ (e.op \in {"GetAndTouchRaw", "Get", "GetRaw"} /\ o.ok => B(e.r.body) = o.rbody)
                    /\ (e.op = "GetSubDocRaw" /\ o.ok => e.r.val = o.rval)
        \* the expiry of a tombstone may be unreadable (GetExpiry of a tombstone may report "missing"): then it is
        \* only observed on feed events
        expHidden == IsTomb(postObs) /\ no[c][k].exp.cls = "missing"
        \* ... and a call that keeps the expiry of such a tombstone keeps a value the specification never saw
        preHidden == IsTomb(pre) /\ obs[c][k].exp.cls = "missing" /\ e.a.pres
        Norm(d) == IF expHidden \/ preHidden THEN [NoJson(d) EXCEPT !.exp = "0"] ELSE NoJson(d)
        matches == {o \in outs : o.any \/ (e.r.cls \in o.cls /\ retOK(o) /\ Norm(o.doc) = Norm(postObs))}
        matched == matches # {}
        \* the JSON flag is not readable through the key-value API: among outcomes that differ only in it, take the one
        \* the feed observers report (the event checks below then compare everything else)
        obsJson == IF e.skiplive THEN pre.json
                   ELSE IF Len(LiveOf(e, c)) = 1 THEN LiveOf(e, c)[1].json ELSE DumpJson(nd[c], k, pre.json)
        ch   == IF matched
                THEN (IF \E o \in matches : o.doc.json = obsJson THEN CHOOSE o \in matches : o.doc.json = obsJson
                      ELSE CHOOSE o \in matches : TRUE)
                ELSE CHOOSE o \in outs : TRUE
        wild == matched /\ ch.any
        mut  == IF matched /\ ~wild THEN ch.mut ELSE postObs.cas # pre.cas
        live == LiveOf(e, c)
        \* the JSON flag: the specification's if the step matched, else what the observers say
        js   == IF matched /\ ~wild THEN ch.doc.json
                ELSE IF Len(live) = 1 THEN live[1].json ELSE DumpJson(nd[c], k, pre.json)
        post == IF matched /\ ~wild THEN (IF preHidden THEN [ch.doc EXCEPT !.exp = postObs.exp] ELSE ch.doc)
                ELSE [postObs EXCEPT !.json = js]
        props == PropsOf(e, pre, postObs)
        newDocs == IF isPurge
                   THEN [c2 \in Colls |-> [k2 \in Keys |-> DocOf(no[c2][k2], docs[c2][k2].json)]]
                   ELSE [c2 \in Colls |-> [k2 \in Keys |->
                          IF c2 = c /\ k2 = k THEN post
                          ELSE IF <<c2, k2>> \in Changed(e) THEN DocOf(no[c2][k2], docs[c2][k2].json)
                          ELSE docs[c2][k2]]]
        regular == e.op \notin {"SetWithMeta", "DeleteWithMeta"}
        \* Every check is evaluated as a plain expression (never as an action disjunct, which TLC
        \* would explore nondeterministically): it yields the number of FAIL tuples it printed.
        F(ok, props2, what, exp, got) == IF ok THEN 0 ELSE IF Fail(props2, e, what, exp, got) THEN 1 ELSE 1
        \* ---- the step itself ---------------------------------------------
        fStep ==
            IF isPurge
            THEN Cardinality({p \in Colls \X Keys :
                    NoJson(DocOf(no[p[1]][p[2]], FALSE)) # NoJson(Purged(docs)[p[1]][p[2]])
                    /\ Fail({"C05", "C01"}, e, <<"purge", p[1], p[2]>>, Brief(Purged(docs)[p[1]][p[2]]), Brief(DocOf(no[p[1]][p[2]], FALSE)))})
            ELSE F(matched, props, <<"outcome", Class(pre), e.a.casc, e.a.opt, e.r.cls, e.r.flag>>,
                   {<<o.cls, Brief(o.doc)>> : o \in outs}, <<e.r.cls, e.r.cas, Brief(postObs)>>)
        \* ---- revision number (C17): filed separately when only the revision differs
        fRev ==
            F(isPurge \/ matched
              \/ ~(\E o \in outs : ~o.any /\ e.r.cls \in o.cls /\ retOK(o)
                       /\ [Norm(o.doc) EXCEPT !.rev = 0] = [Norm(postObs) EXCEPT !.rev = 0]),
              {"C17"}, <<"rev", Class(pre)>>, {o.doc.rev : o \in outs}, postObs.rev)
        \* ---- the result of an update callback is stored on top of exactly the version the callback was shown (C03)
        fShown ==
            F(~(e.op = "WriteUpdateWithXattrs" /\ mut /\ ~isPurge /\ Len(e.shown) > 0) \/ e.shown[Len(e.shown)] = pre.cas,
              {"C03"}, <<"stored-on-another-version-than-shown", Class(pre)>>, pre.cas, e.shown)
        \* ---- a regular mutation carries a CAS above everything issued before (C04, C01)
        fFresh ==
            F(~(mut /\ regular /\ ~isPurge) \/ postObs.cas > clock, {"C04", "C01"}, <<"cas-not-fresh">>, clock, postObs.cas)
        \* ---- every reader agrees about every document that changed (C01, C05)
        fReaders ==
            Cardinality({p \in Changed(e) : ~ReadsCoherent(no[p[1]][p[2]])
                /\ Fail({"C01", "C05"}, e, <<"readers-disagree", p[1], p[2]>>, "coherent", no[p[1]][p[2]])})
        \* ---- nothing else changed (C01 other keys, C11 other collections)
        fOthers ==
            IF isPurge THEN 0
            ELSE Cardinality({p \in Changed(e) : ~(p[1] = c /\ p[2] = k)
                /\ NoJson(DocOf(no[p[1]][p[2]], FALSE)) # NoJson(docs[p[1]][p[2]])
                /\ Fail(IF p[1] = c THEN {"C01"} ELSE {"C11", "C01"}, e, <<"other-doc-changed", p[1], p[2]>>,
                        Brief(docs[p[1]][p[2]]), Brief(DocOf(no[p[1]][p[2]], FALSE)))})
        \* ---- live feed: exactly one faithful event per mutation, none otherwise (C08)
        liveWant(c2) == IF c2 = c /\ mut /\ ~isPurge THEN <<EventOf(k, post, CollId(c))>> ELSE <<>>
        fLive ==
            IF e.skiplive THEN 0 ELSE
            Cardinality({c2 \in Colls : LiveOf(e, c2) # liveWant(c2)
                /\ LET got == LiveOf(e, c2)
                       want == liveWant(c2) IN
                   Fail((IF c2 = c THEN {"C08"} ELSE {"C08", "C11"})
                          \cup (IF Len(got) = 1 /\ Len(want) = 1 /\ got[1].op # want[1].op THEN {"C05"} ELSE {})
                          \* the event of a write that gives a tombstone a body still shows xattrs of the tombstone (C05: every
                          \* observer agrees that the new document has none of them)
                          \cup (IF Len(got) = 1 /\ Len(want) = 1 /\ IsTomb(pre) /\ want[1].op = "mut"
                                   /\ (got[1].xa # want[1].xa \/ got[1].xf # want[1].xf) THEN {"C05"} ELSE {})
                          \cup (IF Len(got) = 1 /\ Len(want) = 1 /\ got[1].rev # want[1].rev THEN {"C17"} ELSE {}),
                        e, <<"live", c2, Class(pre)>>, BriefEvs(want), BriefEvs(got))})
        \* ---- events of one collection reach a feed in increasing CAS order (C08): the event of a regular write carries a
        \*      CAS above every event the feed has had before (those with a caller-chosen CAS included)
        prevMax == IF Len(evlog[c]) = 0 THEN 0
                   ELSE LET S == {evlog[c][j][2].cas : j \in 1..Len(evlog[c])} IN CHOOSE m \in S : \A x \in S : x <= m
        fOrder ==
            F(e.skiplive \/ isPurge \/ ~regular \/ Len(LiveOf(e, c)) # 1 \/ LiveOf(e, c)[1].cas > prevMax,
              {"C08"}, <<"live-cas-order", c>>, prevMax, IF Len(LiveOf(e, c)) = 1 THEN LiveOf(e, c)[1].cas ELSE 0)
        \* ---- a backfill describes a version exactly as the live event did (C09, C08): whatever the specification
        \*      expects, the two descriptions of one version (same key, same CAS) must not differ
        fAgree ==
            IF e.skiplive \/ isPurge \/ Len(LiveOf(e, c)) # 1 THEN 0
            ELSE LET lv == LiveOf(e, c)[1]
                     bf == {i \in 1..Len(nd[c]) : nd[c][i].op \in {"mut", "del"} /\ nd[c][i].key = lv.key /\ nd[c][i].cas = lv.cas} IN
                 Cardinality({i \in bf : nd[c][i] # lv
                     /\ Fail({"C09", "C08"}, e, <<"live-and-backfill-disagree", c, Class(pre)>>, BriefEvs(<<lv>>), BriefEvs(<<nd[c][i]>>))})
        \* ---- the bucket-level feed over all collections delivers the same events, tagged with the right collection (C08, C11)
        mliveOf(c2) == IF Len(e.mlive) = 0 THEN liveWant(c2)
                       ELSE EvsOf(e.mlive[CHOOSE i \in 1..Len(e.mlive) : e.mlive[i].c = c2].evs)
        fMlive ==
            IF e.skiplive THEN 0 ELSE
            Cardinality({c2 \in Colls : mliveOf(c2) # liveWant(c2)
                /\ Fail((IF c2 = c THEN {"C08"} ELSE {"C08", "C11"}), e, <<"multi-collection-feed", c2, Class(pre)>>,
                        BriefEvs(liveWant(c2)), BriefEvs(mliveOf(c2)))})
        \* ---- a keys-only feed registered before the full feed gets the same events without body and xattrs (C08)
        KeyOnly(v) == [v EXCEPT !.body = NoBody, !.xa = NoXa, !.xf = FALSE]
        kWant(c2) == IF liveWant(c2) = <<>> THEN <<>> ELSE <<KeyOnly(liveWant(c2)[1])>>
        kliveOf(c2) == IF Len(e.klive) = 0 THEN kWant(c2)
                       ELSE EvsOf(e.klive[CHOOSE i \in 1..Len(e.klive) : e.klive[i].c = c2].evs)
        fKlive ==
            IF e.skiplive THEN 0 ELSE
            Cardinality({c2 \in Colls : kliveOf(c2) # kWant(c2)
                /\ Fail({"C08"}, e, <<"keys-only-feed", c2, Class(pre)>>, BriefEvs(kWant(c2)), BriefEvs(kliveOf(c2)))})
        \* ---- backfill: a faithful snapshot, equal to what live events say (C09)
        fDump ==
            IF e.skiplive THEN 0 ELSE
            Cardinality({c2 \in Colls : (c2 \in DumpLogged(e) \/ (c2 = c /\ mut) \/ isPurge)
                /\ DumpBody(nd[c2]) # ExpectedDump(c2, newDocs[c2], start[c2])
                /\ LET got == DumpBody(nd[c2])
                       want == ExpectedDump(c2, newDocs[c2], start[c2]) IN
                   Fail({"C09"}
                          \cup (IF Len(got) = Len(want) /\ \E i \in 1..Len(got) : got[i].op # want[i].op THEN {"C05"} ELSE {})
                          \cup (IF Len(got) = Len(want) /\ \E i \in 1..Len(got) : got[i].op = want[i].op /\ got[i].rev # want[i].rev THEN {"C17"} ELSE {}),
                        e, <<"dump", c2>>, BriefEvs(want), BriefEvs(got))})
        \* ---- backfill from an arbitrary start CAS: exactly the documents whose CAS is at least the start (C09)
        fDump2 ==
            Cardinality({j \in 1..Len(e.dump2) :
                DumpBody(EvsOf(e.dump2[j].evs)) # ExpectedDump(e.dump2[j].c, newDocs[e.dump2[j].c], e.dump2[j].start)
                /\ Fail({"C09"}, e, <<"dump-from", e.dump2[j].c>>,
                        BriefEvs(ExpectedDump(e.dump2[j].c, newDocs[e.dump2[j].c], e.dump2[j].start)),
                        BriefEvs(DumpBody(EvsOf(e.dump2[j].evs))))})
        \* ---- SQL queries see exactly the live documents (C19); view queries equal the map function applied
        \*      to the current documents, in collation order, whatever the index has been through (C12)
        na == NewAuxs(e)
        nv == IF e.op = "SwapDDoc" /\ e.r.cls = "ok" THEN [vdef EXCEPT ![c] = IF @ = "A" THEN "B" ELSE "A"] ELSE vdef
        ExpectedAux(kd, ds) == ExpectedAuxV(kd, ds, nv[c])
        CountOK(rows, ds) == CountOKV(rows, ds, nv[c])
        ViewSeq(ds) == ViewSeqV(ds, nv[c])
        auxOn == \E i \in 1..Len(e.aux) : TRUE
        fAux ==
            IF ~auxOn /\ \A kd \in AuxKinds : auxs[c][kd] = <<>> THEN 0
            ELSE IF \E k2 \in Keys : BadJson(newDocs[c][k2]) THEN 0
            ELSE Cardinality({kd \in AuxKinds \ {"viewcount"} : na[c][kd] # ExpectedAux(kd, newDocs[c])
                    /\ Fail(IF kd \in {"q-all", "q-inter", "q-v", "q-vraw", "q-s", "q-null", "q-noxa"} THEN {"C19"} ELSE {"C12"}, e, <<"aux", kd, c>>,
                            BriefRows(ExpectedAux(kd, newDocs[c])), BriefRows(na[c][kd]))})
                 + F(CountOK(na[c]["viewcount"], newDocs[c]), {"C12"}, <<"aux", "viewcount", c>>, Len(ViewSeq(newDocs[c])), BriefRows(na[c]["viewcount"]))
        \* the views queried after the feed flush (whose markers are writes to every collection): one queried after every
        \* step, one only every few steps (its index catches up over several writes at once), a freshly built one: the same rows
        fFresh2 ==
            Cardinality({i \in 1..Len(e.aux) : e.aux[i].kind \in {"viewfresh", "viewlate", "viewpost", "viewcustom", "viewquery"}
                /\ ~(\E k2 \in Keys : BadJson(newDocs[e.aux[i].c][k2]))
                /\ (e.aux[i].err # "" \/ RowsOf(e.aux[i].rows) # ExpectedAuxV(e.aux[i].kind, newDocs[e.aux[i].c], "A"))
                \* the same query was right before the flush markers were written (one to this collection, the others to
                \* other collections) and is wrong after: writes elsewhere changed what this collection's view returns (C11)
                /\ Fail(IF e.aux[i].kind = "viewpost" /\ e.aux[i].c = c /\ vdef[c] = "A" /\ nv[c] = "A"
                           /\ na[c]["view"] = ExpectedAux("view", newDocs[c])
                        THEN {"C12", "C11"} ELSE {"C12"},
                        e, <<"aux", e.aux[i].kind, e.aux[i].c>>, BriefRows(ExpectedAuxV(e.aux[i].kind, newDocs[e.aux[i].c], "A")),
                        IF e.aux[i].err # "" THEN e.aux[i].err ELSE BriefRows(RowsOf(e.aux[i].rows)))})
    IN
    /\ docs' = newDocs
    /\ vdef' = nv
    /\ auxs' = na
    /\ obs' = no
    /\ dumps' = nd
    /\ clock' = IF mut /\ regular /\ ~isPurge /\ postObs.cas > clock THEN postObs.cas ELSE clock
    /\ start' = start
    /\ nfail' = nfail + fStep + fRev + fShown + fFresh + fReaders + fOthers + fLive + fOrder + fAgree + fMlive + fKlive + fDump + fDump2 + (IF isPurge THEN 0 ELSE fAux + fFresh2)
    /\ evlog' = IF mut /\ ~isPurge THEN [evlog EXCEPT ![c] = Append(@, <<e.i, EventOf(k, post, CollId(c))>>)] ELSE evlog
    /\ verlog' = [c2 \in Colls |->
                    LET ks == {k2 \in Keys : newDocs[c2][k2] # docs[c2][k2]} IN
                    verlog[c2] \o SetToSeq({<<e.i, EventOf(k2, newDocs[c2][k2], CollId(c2))>> : k2 \in ks})]


---------------------------------------------------------------------------
(* Concurrent traces: what every feed delivered, checked at quiescence.    *)
MutEvs(s) == SelectSeq(s, LAMBDA v : v.op \in {"mut", "del"})
LogEvs(lg) == {lg[i][2] : i \in 1..Len(lg)}
(* the version of key k in collection c after call line j (AbsentDoc's event never appears) *)
VersionsOf(c, k, j) == {i \in 1..Len(verlog[c]) : verlog[c][i][2].key = k /\ verlog[c][i][1] <= j}
HasVersionAt(c, k, j) == VersionsOf(c, k, j) # {}
VersionAt(c, k, j) == LET is == VersionsOf(c, k, j)
                          m == CHOOSE i \in is : \A i2 \in is : i2 <= i IN verlog[c][m][2]
Count(s, ev) == Cardinality({i \in 1..Len(s) : s[i] = ev})

FeedFail(props, e, f, what, exp, got) ==
    PrintT(<<"FAIL", props, e.tr, 0, e.mode, "feed", <<what, f.id, f.run, f.c, f.backfill, f.dump>>, exp, got>>)

Feeds(e) ==
    LET fs == e.feeds
        ids == {fs[i].id : i \in 1..Len(fs)}
        chk(i) ==
            LET f == fs[i]
                c == f.c
                D == MutEvs(EvsOf(f.evs))
                live == f.endline = -1 /\ f.regline >= 0      \* still running at quiescence
                cprops == IF f.ckpt # "" THEN {"C15"} ELSE {}
                \* C08 / C09: increasing CAS order
                fOrder == IF \A a, b \in 1..Len(D) : a < b => D[a].cas < D[b].cas THEN 0
                          ELSE IF FeedFail({"C08", "C09"} \cup cprops, e, f, "cas-order", "increasing", BriefEvs(D)) THEN 1 ELSE 1
                \* C08: nothing is delivered that no mutation produced
                spurious == {a \in 1..Len(D) : D[a] \notin LogEvs(evlog[c]) \cup LogEvs(verlog[c])}
                fSpur == IF spurious = {} THEN 0
                         ELSE IF FeedFail({"C08", "C09"}, e, f, "spurious-event", "an event of a recorded version",
                                          BriefEvs([a \in 1..Len(D) |-> D[a]])) THEN 1 ELSE 1
                \* C08: a feed that is running delivers every later mutation exactly once
                owed == {a \in 1..Len(evlog[c]) : evlog[c][a][1] > f.regline}
                fOnce == IF ~live THEN 0
                         ELSE Cardinality({a \in owed : Count(D, evlog[c][a][2]) # 1
                                /\ FeedFail({"C08"} \cup cprops, e, f, "not-exactly-once", BriefEv(evlog[c][a][2]),
                                            <<Count(D, evlog[c][a][2]), f.regline, evlog[c][a][1]>>)})
                \* C09: backfill + live deliver the final version of every key (running feed with backfill);
                \* a dump delivers the snapshot as of its backfill
                fFinal == IF f.backfill # "zero" THEN 0
                          ELSE IF f.dump /\ f.stopped THEN 0
                          ELSE IF f.dump
                          THEN Cardinality({k \in Keys : HasVersionAt(c, k, f.bfline)
                                  /\ VersionAt(c, k, f.bfline).cas >= start[c]
                                  /\ Count(D, VersionAt(c, k, f.bfline)) # 1
                                  /\ FeedFail({"C09"}, e, f, "dump-not-snapshot", BriefEv(VersionAt(c, k, f.bfline)), BriefEvs(D))})
                          ELSE IF ~live THEN 0
                          ELSE Cardinality({k \in Keys : ~IsAbsent(docs[c][k]) /\ docs[c][k].cas >= start[c]
                                  /\ Count(D, EventOf(k, docs[c][k], CollId(c))) = 0
                                  /\ FeedFail({"C09"}, e, f, "final-version-lost", BriefEv(EventOf(k, docs[c][k], CollId(c))),
                                              <<f.bfline, f.regline, BriefEvs(D)>>)})
                \* C16: nothing is delivered after the done channel closed
                fAfter == IF f.afterend = 0 THEN 0
                          ELSE IF FeedFail({"C16"}, e, f, "callback-after-end", 0, f.afterend) THEN 1 ELSE 1
                \* C16: once the terminator is closed the callback is not invoked again (at most the delivery already in flight)
                fStop == IF ~f.stopped THEN 0
                         ELSE IF f.total - f.stopat <= 1 THEN 0
                         ELSE IF FeedFail({"C16"}, e, f, "callback-after-terminator-closed", f.stopat + 1, f.total) THEN 1 ELSE 1
            IN fOrder + fSpur + fOnce + fFinal + fAfter + fStop
        \* C15: the runs of one checkpointed feed, taken together
        runsOf(id) == {i \in 1..Len(fs) : fs[i].id = id}
        chk15(id) ==
            LET rs == runsOf(id)
                any == CHOOSE i \in rs : TRUE
                f == fs[any]
                c == f.c
                lastRun == CHOOSE i \in rs : \A i2 \in rs : fs[i2].run <= fs[i].run
                lastLive == fs[lastRun].dump \/ (fs[lastRun].endline = -1 /\ fs[lastRun].regline >= 0)
                all == UNION {{MutEvs(EvsOf(fs[i].evs))[a] : a \in 1..Len(MutEvs(EvsOf(fs[i].evs)))} : i \in rs}
                maxDelivered == IF all = {} THEN 0 ELSE CHOOSE m \in {v.cas : v \in all} : \A v \in all : v.cas <= m
                fSkip == IF ~lastLive THEN 0
                         ELSE Cardinality({k \in Keys : ~IsAbsent(docs[c][k]) /\ docs[c][k].cas >= start[c]
                                /\ (fs[lastRun].dump => HasVersionAt(c, k, fs[lastRun].bfline) /\ VersionAt(c, k, fs[lastRun].bfline) = EventOf(k, docs[c][k], CollId(c)))
                                /\ EventOf(k, docs[c][k], CollId(c)) \notin all
                                /\ FeedFail({"C15"}, e, f, "skipped-across-runs", BriefEv(EventOf(k, docs[c][k], CollId(c))),
                                            [i \in rs |-> BriefEvs(MutEvs(EvsOf(fs[i].evs)))])})
                ck == fs[lastRun].ckptcas
                fCkpt == IF ck <= maxDelivered THEN 0
                         ELSE IF FeedFail({"C15"}, e, f, "checkpoint-above-delivered", maxDelivered, ck) THEN 1 ELSE 1
            IN IF f.ckpt = "" THEN 0 ELSE fSkip + fCkpt
        total == SumOver(1..Len(fs), chk) + SumOver(ids, chk15)
    IN
    /\ UNCHANGED <<docs, obs, dumps, clock, start, evlog, verlog, auxs, vdef>>
    /\ nfail' = nfail + total


---------------------------------------------------------------------------
(* Crash traces (C10): the bucket as re-opened by another process after the writer was killed.  The        *)
(* specification's documents are those left by the acknowledged calls; the call in flight at the kill is   *)
(* either entirely applied (one of RosmarStore's outcomes for it) or not at all.                           *)
Reopen(e) ==
    LET inf == e.inflight
        c == inf.coll
        k == inf.a.key
        pre == IF inf.op = "-" THEN AbsentDoc ELSE docs[c][k]
        obsOf(c2, k2) == e.post[CHOOSE i \in 1..Len(e.post) : e.post[i].c = c2 /\ e.post[i].key = k2].d
        seen(c2, k2) == DocOf(obsOf(c2, k2), docs[c2][k2].json)
        hid(c2, k2) == IsTomb(seen(c2, k2)) /\ obsOf(c2, k2).exp.cls = "missing"
        NormR(d, c2, k2) == IF hid(c2, k2) THEN [NoJson(d) EXCEPT !.exp = "0"] ELSE NoJson(d)
        same(c2, k2) == NormR(seen(c2, k2), c2, k2) = NormR(docs[c2][k2], c2, k2)
        a0 == ArgsOf(inf.a)
        a == [a0 EXCEPT !.cas = CASE a0.casc = "zero" -> 0
                                  [] a0.casc = "cur" -> IF IsAbsent(pre) THEN 9999 ELSE pre.cas
                                  [] OTHER -> 9998,
                        !.newcas = seen(c, k).cas]
        n == seen(c, k).cas
        outs == IF inf.op = "-" THEN {} ELSE Outcomes(inf.op, a, pre, n)
        applied == /\ inf.op # "-"
                   /\ \A c2 \in Colls, k2 \in Keys : (c2 = c /\ k2 = k) \/ same(c2, k2)
                   /\ \E o \in outs : o.any \/ (o.ok /\ NormR(o.doc, c, k) = NormR(seen(c, k), c, k))
        purgeApplied == inf.op = "PurgeTombstones"
                        /\ \A c2 \in Colls, k2 \in Keys : NoJson(seen(c2, k2)) = NoJson(Purged(docs)[c2][k2])
        untouched == \A c2 \in Colls, k2 \in Keys : same(c2, k2)
        opened == e.openerr = ""
        Fr(ok, what, exp, got) == IF ok THEN 0 ELSE IF PrintT(<<"FAIL", {"C10"}, e.tr, e.i, e.mode, inf.op, what, exp, got>>) THEN 1 ELSE 1
        \* the marks cover every document, whichever way its CAS was chosen (the clock learns of a caller-chosen CAS
        \* above the marks, so later regular writes - which set the marks to their own CAS - lie above it too)
        maxCas(c2) == LET s == {seen(c2, k2).cas : k2 \in Keys} IN CHOOSE m \in s : \A x \in s : x <= m
        fOpen == Fr(opened, <<"reopen-failed", e.site>>, "opens", e.openerr)
        fAtomic == IF ~opened THEN 0 ELSE
                   Fr(untouched \/ applied \/ purgeApplied, <<"not-all-or-nothing", e.site, Class(pre)>>,
                      <<"acknowledged state, or one of", {Brief(o.doc) : o \in outs}>>,
                      {<<p[1], p[2], Brief(seen(p[1], p[2])), Brief(docs[p[1]][p[2]])>> : p \in {q \in Colls \X Keys : ~same(q[1], q[2])}})
        fReaders == IF ~opened THEN 0 ELSE
                    Cardinality({p \in Colls \X Keys : ~ReadsCoherent(obsOf(p[1], p[2]))
                        /\ PrintT(<<"FAIL", {"C10", "C01"}, e.tr, e.i, e.mode, inf.op, <<"readers-disagree-after-reopen", e.site>>, "coherent", obsOf(p[1], p[2])>>)})
        fIdent == IF ~opened THEN 0 ELSE
                  Fr(e.uuidsame /\ e.stores = <<"_default._default", "s.c1", "s.c2">> /\ e.ddocs = <<"c0/vd", "c1/vd", "c2/vd">>,
                     <<"identity-lost", e.site>>, "same UUID, collections, design docs", <<e.uuidsame, e.stores, e.ddocs>>)
        fMarks == IF ~opened THEN 0 ELSE
                  Fr(\A c2 \in Colls : e.marks[c2] >= maxCas(c2) /\ e.marks["bucket"] >= maxCas(c2),
                     <<"high-water-mark-behind-document", e.site>>, [c2 \in Colls |-> maxCas(c2)], e.marks)
        fTimer == IF ~opened THEN 0 ELSE Fr(e.anyexp => e.timerarmed, <<"pending-expiration-not-rearmed", e.site>>, TRUE, e.timerarmed)
        \* ... also one whose deadline passed while nobody had the bucket open
        fLate == IF ~opened THEN 0 ELSE Fr(e.late => e.lategone, <<"overdue-expiration-lost", e.site>>, TRUE, e.lategone)
    IN
    /\ nfail' = nfail + fOpen + fAtomic + fReaders + fIdent + fMarks + fTimer + fLate
    /\ UNCHANGED <<docs, obs, dumps, clock, start, evlog, verlog, auxs, vdef>>


---------------------------------------------------------------------------
(* Randomised stress (real parallelism, no gates): writers on a few keys while a checkpointed resume-mode   *)
(* dump feed runs again and again and a live feed runs all along.  CAS values only.                         *)
Stress(e) ==
    LET Fs(ok, props, what, exp, got) == IF ok THEN 0 ELSE IF PrintT(<<"FAIL", props, e.tr, 0, e.mode, "stress", what, exp, got>>) THEN 1 ELSE 1
        incr(s) == \A i, j \in 1..Len(s) : i < j => s[i] < s[j]
        runs == e.runs
        delivered(n) == UNION {{runs[r].cas[i] : i \in 1..Len(runs[r].cas)} : r \in 1..n}
        maxOf(S) == IF S = {} THEN 0 ELSE CHOOSE m \in S : \A x \in S : x <= m
        finals == {e.final[k] : k \in DOMAIN e.final} \ {0}
        liveSet == {e.live[i] : i \in 1..Len(e.live)}
        commitSet == {e.commit[i] : i \in 1..Len(e.commit)}
        \* C08: every feed run and the live feed see increasing CAS
        fOrder == Cardinality({r \in 1..Len(runs) : ~incr(runs[r].cas)
                     /\ PrintT(<<"FAIL", {"C08", "C09", "C15"}, e.tr, r, e.mode, "stress", <<"run-cas-order">>, "increasing", runs[r].cas>>)})
                  + Fs(incr(e.live), {"C08"}, <<"live-cas-order">>, "increasing", e.live)
        \* C08: the live feed received every committed mutation's CAS that is some key's final version, exactly once
        fLive == Fs(Cardinality(liveSet) = Len(e.live), {"C08"}, <<"live-duplicate">>, "distinct", e.live)
                 + Fs(finals \subseteq liveSet, {"C08"}, <<"live-missed-final-version">>, finals \ liveSet, Len(e.live))
        \* C15: the runs together deliver every key's final version; the checkpoint never exceeds what was delivered
        fSkip == Fs(finals \subseteq delivered(Len(runs)), {"C15"}, <<"final-version-skipped-across-runs">>,
                    finals \ delivered(Len(runs)), <<Len(runs), [r \in 1..Len(runs) |-> runs[r].ckpt]>>)
        fCkpt == Cardinality({r \in 1..Len(runs) : runs[r].ckpt > maxOf(delivered(r))
                     /\ PrintT(<<"FAIL", {"C15"}, e.tr, r, e.mode, "stress", <<"checkpoint-above-delivered">>, maxOf(delivered(r)), runs[r].ckpt>>)})
        \* C04: CAS values are distinct and increase in commit order
        fCas == Fs(incr(e.commit), {"C04", "C08"}, <<"commit-order-not-cas-order">>, "increasing", Len(e.commit))
        \* C03: no increment is lost (the counter is created with 1 by the first Incr and never deleted)
        fIncr == Fs(e.counter = e.incrs, {"C03"}, <<"lost-increment">>, e.incrs, e.counter)
        \* C03 / C08 / C01: the final document of every key is the one its last delivered event describes (CAS order = commit order)
        fLast == Cardinality({i \in 1..Len(e.keys) :
                    LET q == e.keys[i] IN
                    ~(q.finalcas = q.evcas /\ q.finalval = (IF q.evdel THEN "" ELSE q.evval))
                    /\ PrintT(<<"FAIL", {"C03", "C08", "C01"}, e.tr, i, e.mode, "stress", <<"final-state-is-not-the-last-event">>,
                               <<q.key, q.evcas, q.evdel, q.evval>>, <<q.finalcas, q.finalval>>>>)})
    IN
    /\ nfail' = nfail + fOrder + fLive + fSkip + fCkpt + fCas + fIncr + fLast
    /\ UNCHANGED <<docs, obs, dumps, clock, start, evlog, verlog, auxs, vdef>>

Next ==
    /\ l <= Len(TraceLog)
    /\ l' = l + 1
    /\ LET e == TraceLog[l] IN
       IF e.k = "reset" THEN Reset(e) ELSE IF e.k = "feeds" THEN Feeds(e) ELSE IF e.k = "reopen" THEN Reopen(e) ELSE IF e.k = "stress" THEN Stress(e) ELSE Call(e)

Spec == Init /\ [][Next]_vars

(* Acceptance: every line of the file was consumed.                        *)
Accepted == TLCGet("stats").diameter - 1 = Len(TraceLog)
=============================================================================
