SPECIFICATION Spec
CONSTANTS
  Buckets = {"m", "d"}
  K = 4
  MaxSteps = 10
  SeedOnOpen = TRUE
  MetaKeepsMark = TRUE
VIEW View
CHECK_DEADLOCK FALSE
INVARIANTS
  PersistedCoversIssued
  StrictlyIncreasing
  AboveBeforeRestart
