------------------------------- MODULE HLCTrace -------------------------------
(***************************************************************************)
(* Trace validation for C04: every CAS the real code handed out - returned *)
(* by the call, read back, and carried by the feed event - must exceed     *)
(* everything issued before in the process and everything the same bucket  *)
(* issued before a restart; bursts of concurrent writers must yield        *)
(* distinct values, increasing per bucket in commit order.                 *)
(***************************************************************************)
EXTENDS Integers, Sequences, FiniteSets, TLC, Json, IOUtils, FiniteSetsExt

TraceLog == ndJsonDeserialize(IOEnv.VERIF_TRACE)
Bs == {"m", "d"}
VARIABLES l, epochMax, bucketMax, nfail
tvars == <<l, epochMax, bucketMax, nfail>>
Fail(e, what, exp, got) == PrintT(<<"FAIL", {"C04"}, e.tr, e.i, e.mode, e.kind, what, exp, got>>)
F(ok, e, what, exp, got) == IF ok THEN 0 ELSE IF Fail(e, what, exp, got) THEN 1 ELSE 1
MaxSeq(s) == IF Len(s) = 0 THEN 0 ELSE CHOOSE m \in {s[i] : i \in 1..Len(s)} : \A i \in 1..Len(s) : s[i] <= m
Max2(a, b) == IF a > b THEN a ELSE b

TInit == l = 1 /\ epochMax = 0 /\ bucketMax = [b \in Bs |-> 0] /\ nfail = 0

Step(e) ==
    CASE e.kind = "now" ->
           \* e.cas = value returned / stamped; e.readcas = GetRaw's CAS; e.evcas = the feed event's CAS
           /\ nfail' = nfail
                + F(e.res = "ok", e, <<"write-failed">>, "ok", e.res)
                + F(e.cas > epochMax, e, <<"not-above-process-history", e.b, e.op>>, epochMax, e.cas)
                + F(e.cas > bucketMax[e.b], e, <<"not-above-bucket-history", e.b, e.op>>, bucketMax[e.b], e.cas)
                + F(e.readcas = e.cas /\ e.evcas = e.cas, e, <<"observers-disagree", e.op>>, e.cas, <<e.readcas, e.evcas>>)
           /\ epochMax' = Max2(epochMax, e.cas)
           /\ bucketMax' = [bucketMax EXCEPT ![e.b] = Max2(@, e.cas)]
      [] e.kind = "burst" ->
           \* e.vals[b] = CAS values of concurrent writers, per bucket in commit order
           LET all == e.vals["m"] \o e.vals["d"]
               distinct == Cardinality({all[i] : i \in 1..Len(all)}) = Len(all)
               incr(b) == \A i, j \in 1..Len(e.vals[b]) : i < j => e.vals[b][i] < e.vals[b][j]
               above(b) == \A i \in 1..Len(e.vals[b]) : e.vals[b][i] > epochMax /\ e.vals[b][i] > bucketMax[b] IN
           /\ nfail' = nfail
                + F(distinct, e, <<"duplicate-cas">>, "distinct", all)
                + F(incr("m") /\ incr("d"), e, <<"not-increasing-in-commit-order">>, "increasing", e.vals)
                + F(above("m") /\ above("d"), e, <<"not-above-history">>, <<epochMax, bucketMax>>, e.vals)
           /\ epochMax' = Max2(epochMax, MaxSeq(all))
           /\ bucketMax' = [b \in Bs |-> Max2(bucketMax[b], MaxSeq(e.vals[b]))]
      [] e.kind = "restart" ->
           /\ epochMax' = 0 /\ bucketMax' = [bucketMax EXCEPT !["m"] = 0] /\ nfail' = nfail
      [] e.kind = "reset" ->
           /\ epochMax' = 0 /\ bucketMax' = [b \in Bs |-> 0] /\ nfail' = nfail
      [] OTHER -> UNCHANGED <<epochMax, bucketMax, nfail>>

TNext == /\ l <= Len(TraceLog) /\ l' = l + 1 /\ Step(TraceLog[l])
TSpec == TInit /\ [][TNext]_tvars
Accepted == TLCGet("stats").diameter - 1 = Len(TraceLog)
=============================================================================
