SPECIFICATION Spec
CONSTANTS
  Clients = {"p1", "p2"}
  Kinds = {"set", "incr", "update"}
  HasFeed = TRUE
  FeedBackfill = TRUE
  Stops = 0
  InitDoc = TRUE
  FeedInit = "start"
  DeliverLast = TRUE
  EnterGate = FALSE
  PostUnderLock = FALSE
  RegisterAtomic = FALSE
CHECK_DEADLOCK FALSE
INVARIANTS
  PrintSchedules
