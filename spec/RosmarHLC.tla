------------------------------ MODULE RosmarHLC ------------------------------
(***************************************************************************)
(* The hybrid logical clock that stamps every regular mutation (C04): one  *)
(* process-global clock shared by all buckets, a physical clock that may   *)
(* stand still or jump backwards, buckets that persist the last CAS with   *)
(* every commit, process restarts that forget the clock's memory, and      *)
(* buckets that re-seed it from their persisted mark when opened.          *)
(* SeedOnOpen = TRUE is the design; FALSE is the witness configuration.    *)
(***************************************************************************)
EXTENDS Integers, Sequences, FiniteSets, TLC, Json

CONSTANTS Buckets,      \* {"m", "d"}: an in-memory and an on-disk bucket
          K,            \* physical clock readings 0..K
          MaxSteps, SeedOnOpen

VARIABLES highest,      \* the clock's memory (highest value issued or seen)
          phys,         \* current physical clock reading
          isopen,       \* [Buckets -> BOOLEAN]
          persisted,    \* [Buckets -> last CAS committed]  (lost for "m" on restart)
          issuedEpoch,  \* values issued since the process started
          issuedBy,     \* [Buckets -> values ever issued through this bucket (survives restarts for "d")]
          steps, hist
vars == <<highest, phys, isopen, persisted, issuedEpoch, issuedBy, steps, hist>>

Init == /\ highest = 0 /\ phys = 0
        /\ isopen = [b \in Buckets |-> TRUE]
        /\ persisted = [b \in Buckets |-> 0]
        /\ issuedEpoch = {} /\ issuedBy = [b \in Buckets |-> {}]
        /\ steps = 0 /\ hist = <<>>

Clock(v) == /\ phys' = v
            /\ UNCHANGED <<highest, isopen, persisted, issuedEpoch, issuedBy>>
Now(b) ==
    /\ isopen[b]
    /\ LET n == IF highest >= phys THEN highest + 1 ELSE phys IN
       /\ highest' = n
       /\ persisted' = [persisted EXCEPT ![b] = n]
       /\ issuedEpoch' = issuedEpoch \cup {n}
       /\ issuedBy' = [issuedBy EXCEPT ![b] = @ \cup {n}]
    /\ UNCHANGED <<phys, isopen>>
(* the process ends (all handles closed or the process killed); a new process starts with an empty clock *)
Restart ==
    /\ highest' = 0
    /\ isopen' = [b \in Buckets |-> FALSE]
    /\ persisted' = [persisted EXCEPT !["m"] = 0]
    /\ issuedEpoch' = {}
    /\ issuedBy' = [issuedBy EXCEPT !["m"] = {}]
    /\ UNCHANGED phys
Open(b) ==
    /\ ~isopen[b]
    /\ isopen' = [isopen EXCEPT ![b] = TRUE]
    /\ highest' = IF SeedOnOpen /\ persisted[b] > highest THEN persisted[b] ELSE highest
    /\ UNCHANGED <<phys, persisted, issuedEpoch, issuedBy>>

Act(kind, b, v) == [kind |-> kind, b |-> b, v |-> v]
Next == /\ steps < MaxSteps
        /\ steps' = steps + 1
        /\ \/ \E v \in 0..K : Clock(v) /\ hist' = Append(hist, Act("clock", "-", v))
           \/ \E b \in Buckets : Now(b) /\ hist' = Append(hist, Act("now", b, 0))
           \/ Restart /\ hist' = Append(hist, Act("restart", "-", 0))
           \/ \E b \in Buckets : Open(b) /\ hist' = Append(hist, Act("open", b, 0))
Spec == Init /\ [][Next]_vars
View == <<highest, phys, isopen, persisted, issuedEpoch, issuedBy, steps>>

(* C04 *)
MaxOf(s) == IF s = {} THEN 0 ELSE CHOOSE m \in s : \A x \in s : x <= m
StrictlyIncreasing == [][\A b \in Buckets : (issuedEpoch' # issuedEpoch /\ issuedEpoch' # {}) =>
                            (\A n \in issuedEpoch' \ issuedEpoch : n > MaxOf(issuedEpoch))]_vars
AboveBeforeRestart == [][\A b \in Buckets : \A n \in issuedBy'[b] \ issuedBy[b] : n > MaxOf(issuedBy[b])]_vars
PersistedCoversIssued == \A b \in Buckets : isopen[b] => persisted[b] = MaxOf(issuedBy[b])

(* behaviour generation *)
GenNext ==
    /\ steps < MaxSteps
    /\ steps' = steps + 1
    /\ LET r == RandomElement(1..10) IN
       IF r <= 2 THEN \E v \in {RandomElement(0..K)} : Clock(v) /\ hist' = Append(hist, Act("clock", "-", v))
       ELSE IF r <= 8 /\ \E b \in Buckets : isopen[b]
            THEN \E b \in {RandomElement({x \in Buckets : isopen[x]})} : Now(b) /\ hist' = Append(hist, Act("now", b, 0))
       ELSE IF r = 9 \/ \A b \in Buckets : isopen[b] THEN Restart /\ hist' = Append(hist, Act("restart", "-", 0))
       ELSE \E b \in {RandomElement({x \in Buckets : ~isopen[x]})} : Open(b) /\ hist' = Append(hist, Act("open", b, 0))
    /\ (steps' < MaxSteps \/ PrintT("BEHAVIOUR " \o ToJson(hist')))
GenSpec == Init /\ [][GenNext]_vars
=============================================================================
