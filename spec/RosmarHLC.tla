------------------------------ MODULE RosmarHLC ------------------------------
(***************************************************************************)
(* The hybrid logical clock that stamps every regular mutation (C04): one  *)
(* process-global clock shared by all buckets, a physical clock that may   *)
(* stand still or jump backwards, buckets that persist the last CAS with   *)
(* every commit, process restarts that forget the clock's memory, and      *)
(* buckets that re-seed it from their persisted mark when opened.          *)
(* SeedOnOpen = TRUE is the design; FALSE is the witness configuration.    *)
(***************************************************************************)
EXTENDS Integers, Sequences, FiniteSets, TLC, Json

CONSTANTS Buckets,      \* {"m", "d"}: an in-memory and an on-disk bucket
          K,            \* physical clock readings 0..K
          MaxSteps, SeedOnOpen,
          SeedFromBucketMark,   \* TRUE (design): an opened bucket seeds the clock from its bucket-wide mark (FALSE: from the
                                \* marks of the collections that still exist)
          MetaKeepsMark \* TRUE (design): a write with a caller-chosen CAS never lowers the bucket's persisted mark

VARIABLES highest,      \* the clock's memory (highest value issued or seen)
          phys,         \* current physical clock reading
          isopen,       \* [Buckets -> BOOLEAN]
          persisted,    \* [Buckets -> last CAS committed]  (lost for "m" on restart)
          issuedEpoch,  \* sequence of the values issued since the process started
          issuedBy,     \* [Buckets -> sequence of the values ever issued through this bucket (survives restarts for "d")]
          cmark,        \* [Buckets -> mark of a second collection (regular and caller-chosen writes; 0 after it was dropped)]
          dmark,        \* [Buckets -> mark of the default collection]
          steps, hist
vars == <<highest, phys, isopen, persisted, issuedEpoch, issuedBy, cmark, dmark, steps, hist>>

Init == /\ highest = 0 /\ phys = 0
        /\ isopen = [b \in Buckets |-> TRUE]
        /\ persisted = [b \in Buckets |-> 0]
        /\ issuedEpoch = <<>> /\ issuedBy = [b \in Buckets |-> <<>>]
        /\ cmark = [b \in Buckets |-> 0] /\ dmark = [b \in Buckets |-> 0]
        /\ steps = 0 /\ hist = <<>>

Clock(v) == /\ phys' = v
            /\ UNCHANGED <<highest, isopen, persisted, issuedEpoch, issuedBy, cmark, dmark>>
(* a regular write into the default collection (c1 = FALSE) or into the second one *)
NowIn(b, c1) ==
    /\ isopen[b]
    /\ LET n == IF highest >= phys THEN highest + 1 ELSE phys IN
       /\ highest' = n
       /\ persisted' = [persisted EXCEPT ![b] = n]
       /\ issuedEpoch' = Append(issuedEpoch, n)
       /\ issuedBy' = [issuedBy EXCEPT ![b] = Append(@, n)]
       /\ cmark' = IF c1 THEN [cmark EXCEPT ![b] = n] ELSE cmark
       /\ dmark' = IF c1 THEN dmark ELSE [dmark EXCEPT ![b] = n]
    /\ UNCHANGED <<phys, isopen>>
Now(b) == NowIn(b, FALSE)
(* the second collection is dropped: its mark goes with it *)
DropC1(b) ==
    /\ isopen[b]
    /\ cmark' = [cmark EXCEPT ![b] = 0]
    /\ UNCHANGED <<highest, phys, isopen, persisted, issuedEpoch, issuedBy, dmark>>
(* SetWithMeta / DeleteWithMeta into another collection of the bucket with a caller-chosen CAS just below (lo) or
   above the bucket's mark: the collection's mark follows it, the bucket's mark never falls, the clock learns of it *)
Meta(b, lo) ==
    /\ isopen[b]
    /\ LET v == IF lo THEN persisted[b] - 1 ELSE persisted[b] + 2 IN
       /\ v > 0
       /\ IF v <= cmark[b] THEN UNCHANGED <<persisted, cmark>>
          ELSE /\ cmark' = [cmark EXCEPT ![b] = v]
               /\ persisted' = [persisted EXCEPT ![b] = IF MetaKeepsMark /\ @ > v THEN @ ELSE v]
       /\ highest' = IF v > cmark[b] /\ v > highest THEN v ELSE highest    \* the clock learns of a CAS above the collection's mark
    /\ UNCHANGED <<phys, isopen, issuedEpoch, issuedBy, dmark>>
(* the process ends (all handles closed or the process killed); a new process starts with an empty clock *)
Restart ==
    /\ highest' = 0
    /\ isopen' = [b \in Buckets |-> FALSE]
    /\ persisted' = [persisted EXCEPT !["m"] = 0]
    /\ issuedEpoch' = <<>>
    /\ issuedBy' = [issuedBy EXCEPT !["m"] = <<>>]
    /\ cmark' = [cmark EXCEPT !["m"] = 0] /\ dmark' = [dmark EXCEPT !["m"] = 0]
    /\ UNCHANGED phys
Open(b) ==
    /\ ~isopen[b]
    /\ isopen' = [isopen EXCEPT ![b] = TRUE]
    /\ LET seed == IF SeedFromBucketMark THEN persisted[b] ELSE (IF cmark[b] > dmark[b] THEN cmark[b] ELSE dmark[b]) IN
       highest' = IF SeedOnOpen /\ seed > highest THEN seed ELSE highest
    /\ UNCHANGED <<phys, persisted, issuedEpoch, issuedBy, cmark, dmark>>

Act(kind, b, v) == [kind |-> kind, b |-> b, v |-> v]
Next == /\ steps < MaxSteps
        /\ steps' = steps + 1
        /\ \/ \E v \in 0..K : Clock(v) /\ hist' = Append(hist, Act("clock", "-", v))
           \/ \E b \in Buckets : Now(b) /\ hist' = Append(hist, Act("now", b, 0))
           \/ \E b \in Buckets : NowIn(b, TRUE) /\ hist' = Append(hist, Act("now", b, 1))
           \/ \E b \in Buckets : DropC1(b) /\ hist' = Append(hist, Act("drop", b, 0))
           \/ Restart /\ hist' = Append(hist, Act("restart", "-", 0))
           \/ \E b \in Buckets : Open(b) /\ hist' = Append(hist, Act("open", b, 0))
           \/ \E b \in Buckets, lo \in BOOLEAN : Meta(b, lo) /\ hist' = Append(hist, Act("meta", b, IF lo THEN 1 ELSE 0))
Spec == Init /\ [][Next]_vars
View == <<highest, phys, isopen, persisted, issuedEpoch, issuedBy, cmark, dmark, steps>>

(* C04 *)
MaxOf(s) == IF Len(s) = 0 THEN 0 ELSE CHOOSE m \in {s[i] : i \in 1..Len(s)} : \A i \in 1..Len(s) : s[i] <= m
Increasing(s) == \A i, j \in 1..Len(s) : i < j => s[i] < s[j]
(* sequences, not sets: handing out the same value twice must show *)
StrictlyIncreasing == Increasing(issuedEpoch)
AboveBeforeRestart == \A b \in Buckets : Increasing(issuedBy[b])
(* witness configurations: every behaviour that breaks the property is printed as a script for the real code *)
WitnessScripts == AboveBeforeRestart \/ (PrintT("WITNESS " \o ToJson(hist)) /\ FALSE)
PersistedCoversIssued == \A b \in Buckets : isopen[b] => persisted[b] >= MaxOf(issuedBy[b])

(* behaviour generation *)
GenNext ==
    /\ steps < MaxSteps
    /\ steps' = steps + 1
    /\ LET r == RandomElement(1..12) IN
       IF r >= 11 /\ \E b \in Buckets : isopen[b] /\ persisted[b] > 1
       THEN \E b \in {RandomElement({x \in Buckets : isopen[x] /\ persisted[x] > 1})}, lo \in {RandomElement(BOOLEAN)} :
               Meta(b, lo) /\ hist' = Append(hist, Act("meta", b, IF lo THEN 1 ELSE 0))
       ELSE IF r <= 2 THEN \E v \in {RandomElement(0..K)} : Clock(v) /\ hist' = Append(hist, Act("clock", "-", v))
       ELSE IF r <= 8 /\ \E b \in Buckets : isopen[b]
            THEN \E b \in {RandomElement({x \in Buckets : isopen[x]})}, c1 \in {RandomElement({FALSE, FALSE, TRUE})}, dr \in {RandomElement(1..8)} :
                    IF dr = 1 THEN DropC1(b) /\ hist' = Append(hist, Act("drop", b, 0))
                    ELSE NowIn(b, c1) /\ hist' = Append(hist, Act("now", b, IF c1 THEN 1 ELSE 0))
       ELSE IF r = 9 \/ \A b \in Buckets : isopen[b] THEN Restart /\ hist' = Append(hist, Act("restart", "-", 0))
       ELSE \E b \in {RandomElement({x \in Buckets : ~isopen[x]})} : Open(b) /\ hist' = Append(hist, Act("open", b, 0))
    /\ (steps' < MaxSteps \/ PrintT("BEHAVIOUR " \o ToJson(hist')))
GenSpec == Init /\ [][GenNext]_vars
=============================================================================
