SPECIFICATION TSpec
CONSTANTS
  Keys = {"k1", "k2", "k3"}
  MaxCas = 100000
  MaxSteps = 100000
  InvalidateOnForeign = TRUE
  OwnMark = TRUE
  ClockSeesForeign = TRUE
POSTCONDITION Accepted
CHECK_DEADLOCK FALSE
