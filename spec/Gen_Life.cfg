SPECIFICATION GenSpec
CONSTANTS
  MaxSteps = 9
CHECK_DEADLOCK FALSE
