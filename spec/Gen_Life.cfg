SPECIFICATION GenSpec
CONSTANTS
  MaxSteps = 11
CHECK_DEADLOCK FALSE
