SPECIFICATION GenSpec
CONSTANTS
  Colls = {"c0", "c1", "c2"}
  Keys = {"k1", "k2"}
  MaxOps = 6
  OpSet <- AllOps
CHECK_DEADLOCK FALSE
