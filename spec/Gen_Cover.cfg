SPECIFICATION CoverSpec
CONSTANTS
  Colls = {"c0", "c1", "c2"}
  Keys = {"k1", "k2"}
  MaxOps = 6
  OpSet <- AllOps
  Cap = 20
CHECK_DEADLOCK FALSE
