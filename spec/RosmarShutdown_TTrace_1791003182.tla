---- MODULE RosmarShutdown_TTrace_1791003182 ----
EXTENDS Sequences, TLCExt, Toolbox, RosmarShutdown, Naturals, TLC

_expression ==
    LET RosmarShutdown_TEExpression == INSTANCE RosmarShutdown_TEExpression
    IN RosmarShutdown_TEExpression!expression
----

_trace ==
    LET RosmarShutdown_TETrace == INSTANCE RosmarShutdown_TETrace
    IN RosmarShutdown_TETrace!trace
----

_inv ==
    ~(
        TLCGet("level") = Len(_TETrace)
        /\
        owner = ([F |-> "-", R |-> "-", M |-> "cad", E |-> "timer"])
        /\
        stopped = (FALSE)
        /\
        pc = ([timer |-> 5, cad |-> 4])
        /\
        sched = (<<"timer", "timer", "cad", "cad">>)
        /\
        panicked = (FALSE)
        /\
        dbClosed = (FALSE)
        /\
        skip = ([timer |-> FALSE, cad |-> FALSE])
    )
----

_init ==
    /\ panicked = _TETrace[1].panicked
    /\ stopped = _TETrace[1].stopped
    /\ dbClosed = _TETrace[1].dbClosed
    /\ pc = _TETrace[1].pc
    /\ skip = _TETrace[1].skip
    /\ sched = _TETrace[1].sched
    /\ owner = _TETrace[1].owner
----

_next ==
    /\ \E i,j \in DOMAIN _TETrace:
        /\ \/ /\ j = i + 1
              /\ i = TLCGet("level")
        /\ panicked  = _TETrace[i].panicked
        /\ panicked' = _TETrace[j].panicked
        /\ stopped  = _TETrace[i].stopped
        /\ stopped' = _TETrace[j].stopped
        /\ dbClosed  = _TETrace[i].dbClosed
        /\ dbClosed' = _TETrace[j].dbClosed
        /\ pc  = _TETrace[i].pc
        /\ pc' = _TETrace[j].pc
        /\ skip  = _TETrace[i].skip
        /\ skip' = _TETrace[j].skip
        /\ sched  = _TETrace[i].sched
        /\ sched' = _TETrace[j].sched
        /\ owner  = _TETrace[i].owner
        /\ owner' = _TETrace[j].owner

\* Uncomment the ASSUME below to write the states of the error trace
\* to the given file in Json format. Note that you can pass any tuple
\* to `JsonSerialize`. For example, a sub-sequence of _TETrace.
    \* ASSUME
    \*     LET J == INSTANCE Json
    \*         IN J!JsonSerialize("RosmarShutdown_TTrace_1791003182.json", _TETrace)

=============================================================================

 Note that you can extract this module `RosmarShutdown_TEExpression`
  to a dedicated file to reuse `expression` (the module in the 
  dedicated `RosmarShutdown_TEExpression.tla` file takes precedence 
  over the module `RosmarShutdown_TEExpression` below).

---- MODULE RosmarShutdown_TEExpression ----
EXTENDS Sequences, TLCExt, Toolbox, RosmarShutdown, Naturals, TLC

expression == 
    [
        \* To hide variables of the `RosmarShutdown` spec from the error trace,
        \* remove the variables below.  The trace will be written in the order
        \* of the fields of this record.
        panicked |-> panicked
        ,stopped |-> stopped
        ,dbClosed |-> dbClosed
        ,pc |-> pc
        ,skip |-> skip
        ,sched |-> sched
        ,owner |-> owner
        
        \* Put additional constant-, state-, and action-level expressions here:
        \* ,_stateNumber |-> _TEPosition
        \* ,_panickedUnchanged |-> panicked = panicked'
        
        \* Format the `panicked` variable as Json value.
        \* ,_panickedJson |->
        \*     LET J == INSTANCE Json
        \*     IN J!ToJson(panicked)
        
        \* Lastly, you may build expressions over arbitrary sets of states by
        \* leveraging the _TETrace operator.  For example, this is how to
        \* count the number of times a spec variable changed up to the current
        \* state in the trace.
        \* ,_panickedModCount |->
        \*     LET F[s \in DOMAIN _TETrace] ==
        \*         IF s = 1 THEN 0
        \*         ELSE IF _TETrace[s].panicked # _TETrace[s-1].panicked
        \*             THEN 1 + F[s-1] ELSE F[s-1]
        \*     IN F[_TEPosition - 1]
    ]

=============================================================================



Parsing and semantic processing can take forever if the trace below is long.
 In this case, it is advised to uncomment the module below to deserialize the
 trace from a generated binary file.

\*
\*---- MODULE RosmarShutdown_TETrace ----
\*EXTENDS IOUtils, RosmarShutdown, TLC
\*
\*trace == IODeserialize("RosmarShutdown_TTrace_1791003182.bin", TRUE)
\*
\*=============================================================================
\*

---- MODULE RosmarShutdown_TETrace ----
EXTENDS RosmarShutdown, TLC

trace == 
    <<
    ([owner |-> [F |-> "-", R |-> "-", M |-> "-", E |-> "-"],stopped |-> FALSE,pc |-> [timer |-> 1, cad |-> 1],sched |-> <<>>,panicked |-> FALSE,dbClosed |-> FALSE,skip |-> [timer |-> FALSE, cad |-> FALSE]]),
    ([owner |-> [F |-> "-", R |-> "-", M |-> "-", E |-> "-"],stopped |-> FALSE,pc |-> [timer |-> 2, cad |-> 1],sched |-> <<"timer">>,panicked |-> FALSE,dbClosed |-> FALSE,skip |-> [timer |-> FALSE, cad |-> FALSE]]),
    ([owner |-> [F |-> "-", R |-> "-", M |-> "-", E |-> "timer"],stopped |-> FALSE,pc |-> [timer |-> 3, cad |-> 1],sched |-> <<"timer">>,panicked |-> FALSE,dbClosed |-> FALSE,skip |-> [timer |-> FALSE, cad |-> FALSE]]),
    ([owner |-> [F |-> "-", R |-> "-", M |-> "-", E |-> "timer"],stopped |-> FALSE,pc |-> [timer |-> 4, cad |-> 1],sched |-> <<"timer", "timer">>,panicked |-> FALSE,dbClosed |-> FALSE,skip |-> [timer |-> FALSE, cad |-> FALSE]]),
    ([owner |-> [F |-> "-", R |-> "-", M |-> "-", E |-> "timer"],stopped |-> FALSE,pc |-> [timer |-> 5, cad |-> 1],sched |-> <<"timer", "timer">>,panicked |-> FALSE,dbClosed |-> FALSE,skip |-> [timer |-> FALSE, cad |-> FALSE]]),
    ([owner |-> [F |-> "-", R |-> "-", M |-> "-", E |-> "timer"],stopped |-> FALSE,pc |-> [timer |-> 5, cad |-> 2],sched |-> <<"timer", "timer", "cad">>,panicked |-> FALSE,dbClosed |-> FALSE,skip |-> [timer |-> FALSE, cad |-> FALSE]]),
    ([owner |-> [F |-> "-", R |-> "-", M |-> "cad", E |-> "timer"],stopped |-> FALSE,pc |-> [timer |-> 5, cad |-> 3],sched |-> <<"timer", "timer", "cad">>,panicked |-> FALSE,dbClosed |-> FALSE,skip |-> [timer |-> FALSE, cad |-> FALSE]]),
    ([owner |-> [F |-> "-", R |-> "-", M |-> "cad", E |-> "timer"],stopped |-> FALSE,pc |-> [timer |-> 5, cad |-> 4],sched |-> <<"timer", "timer", "cad", "cad">>,panicked |-> FALSE,dbClosed |-> FALSE,skip |-> [timer |-> FALSE, cad |-> FALSE]])
    >>
----


=============================================================================

---- CONFIG RosmarShutdown_TTrace_1791003182 ----
CONSTANTS
    Procs = { "timer" , "cad" }
    StopFirst = FALSE

INVARIANT
    _inv

CHECK_DEADLOCK
    \* CHECK_DEADLOCK off because of PROPERTY or INVARIANT above.
    FALSE

INIT
    _init

NEXT
    _next

CONSTANT
    _TETrace <- _trace

ALIAS
    _expression
=============================================================================
\* Generated on Sat Oct 03 04:53:03 UTC 2026