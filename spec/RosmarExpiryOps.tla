--------------------------- MODULE RosmarExpiryOps ---------------------------
(***************************************************************************)
(* Expiry semantics (C14): which deadline is in force after each call.     *)
(* A document is [live, dl]: dl = deadline in seconds (0 = never expires). *)
(***************************************************************************)
EXTENDS Integers, Sequences, FiniteSets, TLC

EColls == {"c0", "c1"}
EKeys  == {"k1", "k2"}
EOps   == {"Set", "SetPres", "Add", "Touch", "Delete", "Incr", "UpdateXattrs", "WriteCas", "Reopen"}
NoDoc  == [live |-> FALSE, dl |-> 0, row |-> FALSE]

(* the document after operation op with expiry argument e (as a deadline) *)
After(d, op, e) ==
    CASE op = "Set"      -> [live |-> TRUE, dl |-> e, row |-> TRUE]
      [] op = "SetPres"  -> IF d.row THEN [live |-> TRUE, dl |-> d.dl, row |-> TRUE] ELSE [live |-> TRUE, dl |-> e, row |-> TRUE]
      [] op = "Add"      -> IF d.live THEN d ELSE [live |-> TRUE, dl |-> e, row |-> TRUE]
      [] op = "Touch"    -> IF d.live THEN [d EXCEPT !.dl = e] ELSE d
      [] op = "Delete"   -> IF d.live THEN [live |-> FALSE, dl |-> 0, row |-> TRUE] ELSE d
      [] op = "Incr"     -> [live |-> TRUE, dl |-> e, row |-> TRUE]
      [] op = "UpdateXattrs" -> IF d.live THEN [d EXCEPT !.dl = e] ELSE d
      [] op = "WriteCas" -> [live |-> TRUE, dl |-> e, row |-> TRUE]
      [] OTHER -> d

Deadlines(docs) == {docs[c][k].dl : c \in EColls, k \in EKeys} \ {0}
MinOf(s) == CHOOSE m \in s : \A x \in s : m <= x
=============================================================================
