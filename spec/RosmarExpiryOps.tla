--------------------------- MODULE RosmarExpiryOps ---------------------------
(***************************************************************************)
(* Expiry semantics (C14): which deadline is in force after each call.     *)
(* A document is [live, dl]: dl = deadline in seconds (0 = never expires). *)
(***************************************************************************)
EXTENDS Integers, Sequences, FiniteSets, TLC

EColls == {"c0", "c1"}
EKeys  == {"k1", "k2"}
EOps   == {"Set", "SetPres", "Add", "Touch", "Delete", "Incr", "UpdateXattrs", "WriteCas", "Reopen", "Recreate"}
NoDoc  == [live |-> FALSE, dl |-> 0, row |-> FALSE]

(* the document after operation op with expiry argument e (as a deadline) *)
After(d, op, e) ==
    CASE op = "Set"      -> [live |-> TRUE, dl |-> e, row |-> TRUE]
      [] op = "SetPres"  -> IF d.row THEN [live |-> TRUE, dl |-> d.dl, row |-> TRUE] ELSE [live |-> TRUE, dl |-> e, row |-> TRUE]
      [] op = "Add"      -> IF d.live THEN d ELSE [live |-> TRUE, dl |-> e, row |-> TRUE]
      [] op = "Touch"    -> IF d.live THEN [d EXCEPT !.dl = e] ELSE d
      [] op = "Delete"   -> IF d.live THEN [live |-> FALSE, dl |-> 0, row |-> TRUE] ELSE d
      [] op = "Incr"     -> [live |-> TRUE, dl |-> e, row |-> TRUE]
      [] op = "UpdateXattrs" -> IF d.live THEN [d EXCEPT !.dl = e] ELSE d
      [] op = "WriteCas" -> [live |-> TRUE, dl |-> e, row |-> TRUE]
      [] OTHER -> d

(* Recreate: the collection is dropped and created again under the same name: all its documents are gone, and *)
(* what is written into it afterwards expires like anything else                                              *)
AfterAll(ds, op, c, k, e) ==
    IF op = "Recreate" THEN (IF c = "c1" THEN [ds EXCEPT ![c] = [k2 \in EKeys |-> NoDoc]] ELSE ds)
    ELSE [ds EXCEPT ![c][k] = After(ds[c][k], op, e)]

Deadlines(docs) == {docs[c][k].dl : c \in EColls, k \in EKeys} \ {0}
MinOf(s) == CHOOSE m \in s : \A x \in s : m <= x
=============================================================================
