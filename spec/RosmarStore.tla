---------------------------- MODULE RosmarStore ----------------------------
(***************************************************************************)
(* Sequential semantics of rosmar's key-value / xattr / sub-document /     *)
(* WithMeta entry points, as pure operators.                               *)
(*                                                                         *)
(* Outcomes(op, a, d, n) is the SET of outcomes the properties C01, C02,   *)
(* C05, C06, C07, C17, C18 allow when operation `op` with argument record  *)
(* `a` is applied to a key whose current document is `d`, `n` being a CAS  *)
(* greater than every CAS issued so far.  Where the property statements    *)
(* fix the behaviour the set is a singleton; where they are silent it      *)
(* contains every coherent alternative, or a wildcard outcome (any=TRUE).  *)
(*                                                                         *)
(* The module is used (i) atomically by RosmarSeq (model checking and      *)
(* behaviour generation), (ii) at the commit step of RosmarConc, (iii) by  *)
(* the trace specifications, which check every recorded step of the real   *)
(* code against it.                                                        *)
(***************************************************************************)
EXTENDS Integers, Sequences, FiniteSets, TLC

XNames   == {"_s", "_t", "u"}      \* xattr names used by all drivers
SysNames == {"_s", "_t"}           \* underscore-prefixed = system xattrs
Leaves   == {"v", "a", "n", "n.x"} \* leaves of object bodies: props v, a, n and n's child x

---------------------------------------------------------------------------
(* Bodies.  One uniform record type, so that TLC never compares values of  *)
(* different types.  k: none | obj | num | raw | unk | nomacro             *)
DashLeaves == [l \in Leaves |-> "-"]
NoBody     == [k |-> "none", o |-> DashLeaves, r |-> <<>>, n |-> 0]
NoMacro    == [k |-> "nomacro", o |-> DashLeaves, r |-> <<>>, n |-> 0]
ObjBody(o) == [k |-> "obj", o |-> o, r |-> <<>>, n |-> 0]
NumBody(i) == [k |-> "num", o |-> DashLeaves, r |-> <<>>, n |-> i]
RawBody(s) == [k |-> "raw", o |-> DashLeaves, r |-> s, n |-> 0]
EmptyObj   == ObjBody(DashLeaves)

(* Xattr values: token t ("-" = absent), expanded CAS macro (0 = none),    *)
(* body whose checksum the expanded CRC32c macro equals (NoMacro = none).  *)
NoX  == [t |-> "-", cas |-> 0, crc |-> NoMacro]
NoXa == [x \in XNames |-> NoX]
NoSets == [x \in XNames |-> [t |-> "-", mc |-> FALSE, mh |-> FALSE]]
NoDels == [x \in XNames |-> FALSE]

(* Documents.  st = "absent" (no row at all) or "doc"; a tombstone is a    *)
(* doc whose body is NoBody.                                               *)
AbsentDoc == [st |-> "absent", body |-> NoBody, json |-> FALSE, cas |-> 0,
              exp |-> "0", xa |-> NoXa, rev |-> 0]
Live(b, js, c, e, xa, rv) ==
    [st |-> "doc", body |-> b, json |-> js, cas |-> c, exp |-> e, xa |-> xa, rev |-> rv]
Tomb(c, e, xa, rv) == Live(NoBody, FALSE, c, e, xa, rv)

IsAbsent(d) == d.st = "absent"
HasBody(d)  == d.st = "doc" /\ d.body.k # "none"
IsTomb(d)   == d.st = "doc" /\ d.body.k = "none"
Class(d)    == IF IsAbsent(d) THEN "A" ELSE IF HasBody(d) THEN "L" ELSE "T"
NextRev(d)  == IF IsAbsent(d) THEN 1 ELSE d.rev + 1
HasXattrs(d) == \E x \in XNames : d.xa[x].t # "-"

SysOnly(xa) == [x \in XNames |-> IF x \in SysNames THEN xa[x] ELSE NoX]

MkX(arg, n, b) == [t |-> arg.t, cas |-> IF arg.mc THEN n ELSE 0,
                   \* (the checksum of a body of length zero is that of no body: the two are one token here)
                   crc |-> IF arg.mh THEN (IF b = RawBody(<<>>) THEN NoBody ELSE b) ELSE NoMacro]
ApplySets(xa, sets, n, b) ==
    [x \in XNames |-> IF sets[x].t # "-" THEN MkX(sets[x], n, b) ELSE xa[x]]
ApplyDels(xa, dels) == [x \in XNames |-> IF dels[x] THEN NoX ELSE xa[x]]
AnySet(sets)  == \E x \in XNames : sets[x].t # "-"
AnyDel(dels)  == \E x \in XNames : dels[x]
DelsPresent(xa, dels) == \A x \in XNames : dels[x] => xa[x].t # "-"
DelsUser(dels) == \E x \in XNames \ SysNames : dels[x]
SetAndDel(sets, dels) == \E x \in XNames : dels[x] /\ sets[x].t # "-"
AnyMacro(sets) == \E x \in XNames : sets[x].t # "-" /\ (sets[x].mc \/ sets[x].mh)

(* The feed event that describes a document state (live and backfill).     *)
EventOf(key, d, collid) ==
    [op |-> IF d.body.k = "none" THEN "del" ELSE "mut", key |-> key, body |-> d.body,
     xa |-> d.xa, json |-> d.json, xf |-> HasXattrs(d), cas |-> d.cas, exp |-> d.exp,
     rev |-> d.rev, coll |-> collid]

---------------------------------------------------------------------------
(* Outcomes.                                                               *)
(*  ok    : the call reports success                                        *)
(*  cls   : result classes the call may report                             *)
(*  doc   : the document afterwards                                        *)
(*  mut   : the call drew a new CAS (=> exactly one feed event)            *)
(*  any   : wildcard - the statements do not constrain this corner         *)
(*  flag, num, rbody : returned values;  rcas: which CAS the call returns  *)
(*          ("post" = the new CAS, "pre" = the previous one, "any")        *)
RefCas == {"casMismatch", "keyExists", "missing"}

Out(ok, cls, doc, mut) ==
    [ok |-> ok, cls |-> cls, doc |-> doc, mut |-> mut, any |-> FALSE,
     flag |-> FALSE, num |-> 0, rbody |-> NoBody, rcas |-> "any", rval |-> ""]
Unch(d, cls) == {Out(FALSE, cls, d, FALSE)}
Mut(doc)     == [Out(TRUE, {"ok"}, doc, TRUE) EXCEPT !.rcas = "post"]
Wild(d)       == {[Out(TRUE, {"ok"}, d, FALSE) EXCEPT !.any = TRUE]}
ArgErr(d)    == Unch(d, {"argError", "other"})

PostX(d, n, newBody, newJson, baseXa, sets, dels, e) ==
    Live(newBody, newJson, n, e,
         ApplyDels(ApplySets(baseXa, sets, n, newBody), dels), NextRev(d))

---------------------------------------------------------------------------
(* Plain key-value writes                                                  *)
SetOut(a, d, n, js) ==
    LET e == IF a.pres /\ ~IsAbsent(d) THEN d.exp ELSE a.exp IN
    IF IsAbsent(d) THEN {Mut(Live(a.body, js, n, a.exp, NoXa, 1))}
    ELSE IF HasBody(d) THEN {Mut(Live(a.body, js, n, e, d.xa, d.rev + 1))}
    ELSE {Mut(Live(a.body, js, n, e2, NoXa, d.rev + 1)) : e2 \in {e, IF a.pres THEN "0" ELSE e}}

AddOut(a, d, n, js) ==
    IF HasBody(d) THEN {[Out(TRUE, {"ok"}, d, FALSE) EXCEPT !.flag = FALSE]}
    ELSE {[Mut(Live(a.body, js, n, a.exp, NoXa, NextRev(d))) EXCEPT !.flag = TRUE, !.rcas = "any"]}

IncrOut(a, d, n) ==
    IF ~HasBody(d)
    THEN {[Mut(Live(NumBody(a.def), TRUE, n, a.exp, NoXa, NextRev(d))) EXCEPT !.num = a.def, !.rcas = "any"]}
    ELSE IF d.body.k # "num" THEN Unch(d, {"other"})
    ELSE LET v == d.body.n + a.amt
             \* whether incrementing an existing counter applies the expiry argument or keeps the expiry is not stated
             m(e) == [Mut(Live(NumBody(v), TRUE, n, e, d.xa, d.rev + 1)) EXCEPT !.num = v, !.rcas = "any"]
             ms == {m(a.exp), m(d.exp)} IN
         IF a.amt = 0 THEN ms \cup {[Out(TRUE, {"ok"}, d, FALSE) EXCEPT !.num = v]} ELSE ms

TouchOut(a, d, n) ==
    IF ~HasBody(d) THEN Unch(d, {"missing"})
    ELSE { [Out(TRUE, {"ok"}, [d EXCEPT !.exp = a.exp, !.rev = d.rev + 1], FALSE)
                EXCEPT !.rbody = d.body, !.rcas = "pre"],
           [Out(TRUE, {"ok"}, [d EXCEPT !.exp = a.exp, !.rev = d.rev + 1, !.cas = n], TRUE)
                EXCEPT !.rbody = d.body, !.rcas = "any"] }

DelDoc(d, n) == Tomb(n, "0", SysOnly(d.xa), d.rev + 1)

DeleteOut(a, d, n) ==
    IF IsAbsent(d) THEN Unch(d, {"missing"})
    ELSE IF HasBody(d) THEN {Mut(DelDoc(d, n))}
    ELSE Unch(d, RefCas) \cup {Mut(DelDoc(d, n))}

RemoveOut(a, d, n) ==
    IF IsAbsent(d) THEN Unch(d, RefCas)
    ELSE IF HasBody(d) THEN (IF a.cas = d.cas THEN {Mut(DelDoc(d, n))} ELSE Unch(d, RefCas))
    ELSE Unch(d, RefCas) \cup (IF a.cas = d.cas THEN {Mut(DelDoc(d, n))} ELSE {})

WriteCasOut(a, d, n) ==
    LET c  == a.cas
        js == a.hasbody /\ a.opt \in {"", "addonly"}
        insertMode == a.opt \in {"addonly", "addonlyraw"} \/ (c = 0 /\ a.opt # "append")
        create    == Mut(Live(a.body, js, n, a.exp, NoXa, 1))
        resurrect == Mut(Live(a.body, js, n, a.exp, NoXa, d.rev + 1))
    IN
    IF a.opt = "append" THEN
        IF IsAbsent(d) THEN Unch(d, RefCas)
        ELSE IF IsTomb(d) THEN
            Unch(d, RefCas) \cup (IF c = d.cas /\ a.hasbody THEN {Mut(Live(a.body, FALSE, n, a.exp, NoXa, d.rev + 1))} ELSE {})
        ELSE IF c # d.cas THEN Unch(d, RefCas)
        ELSE IF d.body.k = "raw" /\ a.body.k = "raw"
             THEN {Mut(Live(RawBody(d.body.r \o a.body.r), FALSE, n, a.exp, d.xa, d.rev + 1))}
             ELSE Wild(d)
    ELSE IF insertMode THEN
        IF ~a.hasbody THEN Wild(d)
        ELSE IF IsAbsent(d) THEN (IF c # 0 THEN Unch(d, RefCas) \cup {create} ELSE {create})
        ELSE IF HasBody(d) THEN Unch(d, RefCas)
        ELSE IF c = 0 \/ c = d.cas THEN {resurrect} ELSE Unch(d, RefCas) \cup {resurrect}
    ELSE \* replace mode: c # 0
        IF IsAbsent(d) THEN Unch(d, RefCas)
        ELSE IF c # d.cas THEN Unch(d, RefCas)
        ELSE IF HasBody(d) THEN
            IF a.hasbody THEN {Mut(Live(a.body, js, n, a.exp, d.xa, d.rev + 1))}
            ELSE {Mut(Tomb(n, e, xa, d.rev + 1)) : e \in {a.exp, "0"}, xa \in {d.xa, SysOnly(d.xa)}}
        ELSE IF a.hasbody THEN {resurrect} ELSE Wild(d)

(* Update(callback) run sequentially = the callback applied to the current *)
(* version, then the CAS write it implies.                                 *)
UpdateOut(a, d, n) ==
    LET wc(body, hasbody, e) ==
            WriteCasOut([a EXCEPT !.cas = d.cas, !.body = body, !.hasbody = hasbody, !.exp = e, !.opt = ""], d, n)
    IN
    CASE a.cb = "cancel" -> {Out(TRUE, {"ok"}, d, FALSE)}
      [] a.cb \in {"set", "retry"} -> wc(a.body, TRUE, a.exp)     \* "retry": the callback first asks to be called again
      [] a.cb = "err"    -> Unch(d, {"other"})                      \* the callback fails: nothing is stored
      \* the callback touches the key before it returns the new body: a touch keeps the CAS, so the write goes through - on
      \* top of the touched version (one revision further); the expiry of the write replaces the touched one
      [] a.cb = "touchset" ->
            LET d1 == IF HasBody(d) THEN [d EXCEPT !.exp = "E2", !.rev = @ + 1] ELSE d IN
            WriteCasOut([a EXCEPT !.cas = d1.cas, !.hasbody = TRUE, !.opt = ""], d1, n)
      [] a.cb = "del"    -> IF HasBody(d) THEN wc(NoBody, FALSE, a.exp) ELSE Wild(d)
      [] a.cb = "setexp" -> IF HasBody(d) THEN wc(d.body, TRUE, "E2") ELSE Wild(d)
      [] a.cb = "inc"    -> IF HasBody(d) /\ d.body.k = "num" THEN wc(NumBody(d.body.n + 1), TRUE, a.exp)
                            ELSE IF ~HasBody(d) THEN wc(NumBody(1), TRUE, a.exp) ELSE Wild(d)
      [] OTHER -> Wild(d)

---------------------------------------------------------------------------
(* Xattr family                                                            *)
SetXattrsOut(a, d, n) ==
    IF ~AnySet(a.sets) THEN Wild(d)
    ELSE IF IsAbsent(d) THEN {Mut(PostX(d, n, NoBody, FALSE, NoXa, a.sets, NoDels, "0"))}
    ELSE {Mut(PostX(d, n, d.body, d.json, d.xa, a.sets, NoDels, d.exp))}

UpdateXattrsOut(a, d, n) ==
    IF ~AnySet(a.sets) THEN Wild(d)
    ELSE IF IsAbsent(d) THEN
        (IF a.cas = 0 THEN {Mut(PostX(d, n, NoBody, FALSE, NoXa, a.sets, NoDels, a.exp))} ELSE Unch(d, RefCas))
    ELSE IF a.cas = d.cas THEN {Mut(PostX(d, n, d.body, d.json, d.xa, a.sets, NoDels, a.exp))}
    ELSE Unch(d, RefCas)

RemoveXattrsOut(a, d, n) ==
    IF IsAbsent(d) \/ a.cas # d.cas THEN Unch(d, RefCas \cup {"pathNotFound"})
    ELSE IF ~DelsPresent(d.xa, a.dels) THEN Unch(d, {"pathNotFound"})
    ELSE {[Mut(PostX(d, n, d.body, d.json, d.xa, NoSets, a.dels, d.exp)) EXCEPT !.rcas = "any"]}

DeleteSubDocPathsOut(a, d, n) ==
    IF IsAbsent(d) THEN Unch(d, {"missing"})
    ELSE {[Mut(PostX(d, n, d.body, d.json, d.xa, NoSets, a.dels, d.exp)) EXCEPT !.rcas = "any"]}

WriteWithXattrsOut(a, d, n) ==
    IF (a.cas = 0 /\ AnyDel(a.dels)) \/ (~a.hasbody /\ ~AnySet(a.sets)) \/ SetAndDel(a.sets, a.dels)
    THEN ArgErr(d)
    ELSE IF IsAbsent(d) THEN
        IF a.cas # 0 THEN Unch(d, RefCas)
        ELSE {Mut(PostX(d, n, IF a.hasbody THEN a.body ELSE NoBody, a.hasbody, NoXa, a.sets, NoDels, e))
                 : e \in {a.exp, IF a.pres THEN "0" ELSE a.exp}}
    ELSE IF HasBody(d) THEN
        IF a.cas # d.cas THEN Unch(d, RefCas)
        ELSE IF ~DelsPresent(d.xa, a.dels) THEN Unch(d, {"pathNotFound"})
        ELSE {Mut(PostX(d, n, IF a.hasbody THEN a.body ELSE d.body, IF a.hasbody THEN TRUE ELSE d.json,
                        d.xa, a.sets, a.dels, IF a.pres THEN d.exp ELSE a.exp))}
    ELSE \* tombstone
        IF a.hasbody THEN
            Unch(d, RefCas) \cup
              (IF a.cas = d.cas /\ ~AnyDel(a.dels)
               THEN {Mut(PostX(d, n, a.body, TRUE, NoXa, a.sets, NoDels, IF a.pres THEN d.exp ELSE a.exp))}
               ELSE {})
        ELSE IF a.cas # d.cas THEN Unch(d, RefCas)
        ELSE IF ~DelsPresent(d.xa, a.dels) THEN Unch(d, {"pathNotFound"})
        ELSE {Mut(PostX(d, n, NoBody, FALSE, d.xa, a.sets, a.dels, IF a.pres THEN d.exp ELSE a.exp))}

WriteTombstoneWithXattrsOut(a, d, n) ==
    IF ~AnySet(a.sets) \/ (a.cas = 0 /\ AnyDel(a.dels)) \/ SetAndDel(a.sets, a.dels) THEN ArgErr(d)
    ELSE IF IsAbsent(d) THEN
        IF a.db \/ a.cas # 0 THEN Unch(d, RefCas)
        ELSE {Mut(PostX(d, n, NoBody, FALSE, NoXa, a.sets, NoDels, a.exp))}
    ELSE IF a.cas # d.cas THEN Unch(d, RefCas)
    ELSE IF IsTomb(d) /\ a.db THEN Unch(d, RefCas)
    ELSE IF DelsUser(a.dels) THEN Wild(d)
    ELSE IF ~DelsPresent(d.xa, a.dels) THEN Unch(d, {"pathNotFound"})
    ELSE {Mut(PostX(d, n, NoBody, FALSE, base, a.sets, a.dels, a.exp))
             : base \in (IF HasBody(d) THEN {SysOnly(d.xa)} ELSE {SysOnly(d.xa), d.xa})}

(* UpdateXattrDeleteBody: set one xattr and delete the body in one step (the result is a tombstone) *)
UpdateXattrDeleteBodyOut(a, d, n) ==
    IF ~AnySet(a.sets) THEN Wild(d)
    ELSE IF IsAbsent(d) THEN
        (IF a.cas = 0 THEN {Mut(PostX(d, n, NoBody, FALSE, NoXa, a.sets, NoDels, a.exp))} ELSE Unch(d, RefCas))
    ELSE IF a.cas # d.cas THEN Unch(d, RefCas)
    ELSE {Mut(PostX(d, n, NoBody, FALSE, base, a.sets, NoDels, a.exp))
             : base \in (IF HasBody(d) THEN {SysOnly(d.xa)} ELSE {SysOnly(d.xa), d.xa})}

WriteResurrectionWithXattrsOut(a, d, n) ==
    IF ~a.hasbody THEN ArgErr(d)
    ELSE IF HasBody(d) THEN Unch(d, RefCas)
    ELSE {Mut(PostX(d, n, a.body, TRUE, NoXa, a.sets, NoDels, e))
             : e \in (IF a.pres THEN {d.exp, "0", a.exp} ELSE {a.exp})}

DeleteWithXattrsOut(a, d, n) ==
    LET tombs == {[Mut(Tomb(n, e, xa, d.rev + 1)) EXCEPT !.rcas = "any"] :
                     e \in {d.exp, "0"},
                     xa \in {ApplyDels(d.xa, a.dels), SysOnly(ApplyDels(d.xa, a.dels))}} IN
    IF IsAbsent(d) THEN Unch(d, {"missing"})
    ELSE IF HasBody(d) THEN tombs
    ELSE tombs \cup Unch(d, RefCas)

(* WriteUpdateWithXattrs(callback) run sequentially = the callback applied *)
(* to the current version, then the conditional write it implies.          *)
WriteUpdateWithXattrsOut(a, d, n) ==
    LET a1 == IF a.cb = "inc"
              THEN [a EXCEPT !.body = NumBody(IF HasBody(d) /\ d.body.k = "num" THEN d.body.n + 1 ELSE 1), !.hasbody = TRUE]
              ELSE a
        a2 == [a1 EXCEPT !.cas = d.cas] IN
    IF a.cb = "cancel" THEN Unch(d, {"other"})
    ELSE IF a.db THEN WriteTombstoneWithXattrsOut([a2 EXCEPT !.db = HasBody(d)], d, n)
    ELSE IF IsTomb(d) THEN
        (IF AnyDel(a.dels) THEN ArgErr(d) ELSE WriteResurrectionWithXattrsOut(a2, d, n))
    ELSE WriteWithXattrsOut(a2, d, n)

(* SetWithMeta / DeleteWithMeta: the row becomes exactly the arguments.    *)
MetaXa(sets) == [x \in XNames |-> IF sets[x].t # "-" THEN [t |-> sets[x].t, cas |-> 0, crc |-> NoMacro] ELSE NoX]
WithMetaOut(a, d, isDelete) ==
    LET b   == IF isDelete \/ ~a.hasbody THEN NoBody ELSE a.body
        doc == Live(b, IF isDelete \/ ~a.hasbody THEN FALSE ELSE a.json, a.newcas, a.exp, MetaXa(a.sets), NextRev(d))
    IN IF a.cas = d.cas THEN {[Mut(doc) EXCEPT !.rcas = "any"]} ELSE Unch(d, RefCas)

---------------------------------------------------------------------------
(* Sub-document operations on object bodies                                *)
Parent(p) == IF p = "n.x" THEN "n" ELSE "-"

SetLeaf(o, p, v) ==
    IF p = "n.x" THEN [o EXCEPT !["n.x"] = IF v = "" THEN "-" ELSE v]
    ELSE IF p = "n" THEN [o EXCEPT !["n"] = IF v = "" THEN "-" ELSE v, !["n.x"] = "-"]
    ELSE [o EXCEPT ![p] = IF v = "" THEN "-" ELSE v]

\* error class when the parent of path p cannot be reached in o, "" if reachable
ParentErr(o, p) ==
    IF p # "n.x" THEN ""
    ELSE IF o["n"] \in {"-", "null"} THEN "pathNotFound"    \* an explicit JSON null counts as absent
    ELSE IF o["n"] # "{}" THEN "pathMismatch"
    ELSE ""

SubdocWriteOut(a, d, n, insert) ==
    LET p == a.path IN
    IF p \notin Leaves \/ (a.val = "{}" /\ p # "n") THEN Wild(d)
    ELSE IF ~HasBody(d) THEN
        IF insert THEN Unch(d, {"missing"})
        \* a writer that read the document before a concurrent deletion may report that it is gone instead of creating it
        \* (nothing is lost by that; only traces of the concurrent family mark their calls "raced")
        ELSE IF a.opt = "raced" /\ IsTomb(d) /\ a.cas = 0 /\ ParentErr(DashLeaves, p) = "" /\ a.val # "" THEN
             Unch(d, {"missing"}) \cup {Mut(Live(ObjBody(SetLeaf(DashLeaves, p, a.val)), TRUE, n, "0", NoXa, NextRev(d)))}
        ELSE IF a.cas # 0 /\ a.cas # d.cas THEN Unch(d, RefCas)
        ELSE IF ParentErr(DashLeaves, p) # "" THEN Unch(d, {ParentErr(DashLeaves, p)})
        ELSE IF a.val = "" THEN Wild(d)
        ELSE {Mut(Live(ObjBody(SetLeaf(DashLeaves, p, a.val)), TRUE, n, "0", NoXa, NextRev(d)))}
    ELSE IF d.body.k # "obj" THEN Unch(d, {"other", "pathMismatch"} \cup RefCas)
    ELSE IF a.cas # 0 /\ a.cas # d.cas THEN Unch(d, RefCas)
    ELSE IF ParentErr(d.body.o, p) # "" THEN Unch(d, {ParentErr(d.body.o, p)})
    ELSE IF insert /\ d.body.o[p] \notin {"-", "null"} THEN Unch(d, {"pathExists"})
    ELSE IF insert /\ a.val = "" THEN Wild(d)
    ELSE {[Mut(Live(ObjBody(SetLeaf(d.body.o, p, a.val)), TRUE, n, e, d.xa, d.rev + 1))
              EXCEPT !.rcas = IF insert THEN "any" ELSE "post"] : e \in {"0", d.exp}}

SubVal(o, p) == IF p = "n" /\ o["n"] = "{}"
                THEN (IF o["n.x"] = "-" THEN "{}" ELSE "{x:" \o o["n.x"] \o "}")
                ELSE o[p]

GetSubDocRawOut(a, d) ==
    LET p == a.path IN
    IF p \notin Leaves THEN Wild(d)
    ELSE IF ~HasBody(d) THEN Unch(d, {"missing"})
    ELSE IF d.body.k # "obj" THEN Unch(d, {"other", "pathMismatch"})
    ELSE IF ParentErr(d.body.o, p) # "" THEN Unch(d, {ParentErr(d.body.o, p)})
    ELSE IF d.body.o[p] \in {"-", "null"} THEN Unch(d, {"pathNotFound"})
    ELSE {[Out(TRUE, {"ok"}, d, FALSE) EXCEPT !.rval = SubVal(d.body.o, p), !.rcas = "pre"]}

---------------------------------------------------------------------------
(* Reads as operations (used by the concurrent family)                     *)
GetOut(a, d) ==
    IF HasBody(d) THEN {[Out(TRUE, {"ok"}, d, FALSE) EXCEPT !.rbody = d.body, !.rcas = "pre"]}
    ELSE Unch(d, {"missing"})

---------------------------------------------------------------------------
BodyWriters == {"Set", "SetRaw", "Add", "AddRaw", "WriteCas", "Update", "Incr"}

SizeChecked == {"Set", "SetRaw", "Add", "AddRaw", "WriteCas", "Update", "SetXattrs", "UpdateXattrs", "WriteWithXattrs",
                "WriteTombstoneWithXattrs", "WriteResurrectionWithXattrs", "WriteUpdateWithXattrs"}
XattrValidated == {"UpdateXattrDeleteBody", "SetXattrs", "UpdateXattrs", "WriteWithXattrs", "WriteTombstoneWithXattrs",
                   "WriteResurrectionWithXattrs", "WriteUpdateWithXattrs"}

Outcomes(op, a, d, n) ==
    \* C07: a write that fails because a value is too large or an xattr is not JSON changes nothing
    IF a.badx /\ op \in XattrValidated THEN Unch(d, {"other", "argError"} \cup RefCas)
    ELSE IF a.big /\ op \in SizeChecked THEN Unch(d, {"tooBig", "argError"} \cup RefCas)
    ELSE
    CASE op = "Set"      -> SetOut(a, d, n, TRUE)
      [] op = "SetRaw"   -> SetOut(a, d, n, FALSE)
      [] op = "Add"      -> AddOut(a, d, n, TRUE)
      [] op = "AddRaw"   -> \* whether raw bytes that look like a JSON object are flagged JSON is not stated: both are allowed
                            IF a.body.k = "obj" THEN AddOut(a, d, n, TRUE) \cup AddOut(a, d, n, FALSE) ELSE AddOut(a, d, n, FALSE)
      [] op = "Incr"     -> IncrOut(a, d, n)
      [] op = "Touch"    -> TouchOut(a, d, n)
      [] op = "GetAndTouchRaw" -> TouchOut(a, d, n)
      [] op = "Delete"   -> DeleteOut(a, d, n)
      [] op = "Remove"   -> RemoveOut(a, d, n)
      [] op = "WriteCas" -> WriteCasOut(a, d, n)
      [] op = "Update"   -> UpdateOut(a, d, n)
      [] op = "SetXattrs"    -> SetXattrsOut(a, d, n)
      [] op = "UpdateXattrs" -> UpdateXattrsOut(a, d, n)
      [] op = "RemoveXattrs" -> RemoveXattrsOut(a, d, n)
      [] op = "DeleteSubDocPaths" -> DeleteSubDocPathsOut(a, d, n)
      [] op = "WriteWithXattrs"   -> WriteWithXattrsOut(a, d, n)
      [] op = "WriteTombstoneWithXattrs"    -> WriteTombstoneWithXattrsOut(a, d, n)
      [] op = "WriteResurrectionWithXattrs" -> WriteResurrectionWithXattrsOut(a, d, n)
      [] op = "WriteUpdateWithXattrs"       -> WriteUpdateWithXattrsOut(a, d, n)
      [] op = "DeleteWithXattrs" -> DeleteWithXattrsOut(a, d, n)
      [] op = "UpdateXattrDeleteBody" -> UpdateXattrDeleteBodyOut(a, d, n)
      [] op = "SetWithMeta"    -> WithMetaOut(a, d, FALSE)
      [] op = "DeleteWithMeta" -> WithMetaOut(a, d, TRUE)
      [] op = "WriteSubDoc"    -> SubdocWriteOut(a, d, n, FALSE)
      [] op = "SubdocInsert"   -> SubdocWriteOut(a, d, n, TRUE)
      [] op = "GetSubDocRaw"   -> GetSubDocRawOut(a, d)
      [] op \in {"Get", "GetRaw"} -> GetOut(a, d)
      [] op \in {"Nop", "SwapDDoc"} -> {Out(TRUE, {"ok"}, d, FALSE)}
      [] OTHER -> Wild(d)

(* Which listed properties a deviation of `op` from Outcomes is filed      *)
(* under (besides C01, which every operation is subject to).               *)
Conditional == {"UpdateXattrDeleteBody", "WriteCas", "Remove", "WriteWithXattrs", "WriteTombstoneWithXattrs", "UpdateXattrs",
                "RemoveXattrs", "SetWithMeta", "DeleteWithMeta", "WriteSubDoc", "SubdocInsert"}
Inserters == {"Add", "AddRaw", "WriteResurrectionWithXattrs"}
XattrOps  == {"UpdateXattrDeleteBody", "SetXattrs", "UpdateXattrs", "RemoveXattrs", "DeleteSubDocPaths", "WriteWithXattrs",
              "WriteTombstoneWithXattrs", "WriteResurrectionWithXattrs", "WriteUpdateWithXattrs",
              "DeleteWithXattrs"}
SubdocOps == {"WriteSubDoc", "SubdocInsert", "GetSubDocRaw"}
=============================================================================
