------------------------------- MODULE ExpTrace -------------------------------
(***************************************************************************)
(* Trace validation of the expiry family (C14): after every call the       *)
(* deadline every reader reports must be the one RosmarExpiryOps!After     *)
(* gives, the bucket's timer must be armed at or before the earliest       *)
(* deadline, and the real-time timeline must show every document readable  *)
(* before its deadline, gone and announced as deleted within 4 s after it. *)
(***************************************************************************)
EXTENDS RosmarExpiryOps, Json, IOUtils, FiniteSetsExt

TraceLog == ndJsonDeserialize(IOEnv.VERIF_TRACE)
Slack == 4
VARIABLES l, docs, nfail
tvars == <<l, docs, nfail>>

Fail(e, what, exp, got) == PrintT(<<"FAIL", {"C14"}, e.tr, e.i, e.mode, e.op.op, what, exp, got>>)
Fail2(props, e, what, exp, got) == PrintT(<<"FAIL", props, e.tr, e.i, e.mode, e.op.op, what, exp, got>>)
F2(ok, props, e, what, exp, got) == IF ok THEN 0 ELSE IF Fail2(props, e, what, exp, got) THEN 1 ELSE 1
F(ok, e, what, exp, got) == IF ok THEN 0 ELSE IF Fail(e, what, exp, got) THEN 1 ELSE 1
SumOver(X, f(_)) == FoldSet(LAMBDA x, acc : acc + f(x), 0, X)
ObsOf(e, c, k) == e.docs[CHOOSE i \in 1..Len(e.docs) : e.docs[i].c = c /\ e.docs[i].key = k]
FateOf(e, c, k) == e.fates[CHOOSE i \in 1..Len(e.fates) : e.fates[i].c = c /\ e.fates[i].key = k]

TInit == l = 1 /\ docs = [c \in EColls |-> [k \in EKeys |-> NoDoc]] /\ nfail = 0

OpLine(e) ==
    LET o == e.op
        \* a call that reports an error leaves the document as it was (C01)
        want == IF e.res = "ok" THEN After(docs[o.coll][o.key], o.op, o.e) ELSE docs[o.coll][o.key]
        ob == ObsOf(e, o.coll, o.key)
        \* an expiry given as an offset is stored as call time + offset: the call may fall into the next second
        relok == o.rel /\ want.live /\ want.dl > 0 /\ ob.cls = "ok" /\ ob.exp = want.dl + 1
        \* SetPres on a key that has never been written: the statements do not say which expiry applies
        free == (o.op = "SetPres" /\ ~docs[o.coll][o.key].row)
                \/ (o.op = "Incr" /\ docs[o.coll][o.key].live /\ ob.cls = "ok" /\ ob.exp = docs[o.coll][o.key].dl)
        nd == IF relok \/ (free /\ ob.cls = "ok") THEN [want EXCEPT !.dl = ob.exp] ELSE want
        newdocs == IF o.op = "Recreate" THEN (IF e.res = "ok" THEN AfterAll(docs, o.op, o.coll, o.key, o.e) ELSE docs)
                   ELSE [docs EXCEPT ![o.coll][o.key] = nd]
        fDoc(c, k) ==
            LET d == newdocs[c][k]
                x == ObsOf(e, c, k) IN
            F((x.cls = "ok") = d.live /\ (d.live => x.exp = d.dl), e,
              <<"expiry-in-force", c, k, docs[c][k].live, docs[c][k].dl, o.rel>>, <<d.live, d.dl>>, <<x.cls, x.exp>>)
        ds == {newdocs[c][k].dl : c \in EColls, k \in EKeys} \ {0}
        fTimer == F(ds = {} \/ (e.armed /\ e.next > 0 /\ e.next <= MinOf(ds)), e,
                    <<"timer-not-covering", docs[o.coll][o.key].live>>, IF ds = {} THEN 0 ELSE MinOf(ds), <<e.armed, e.next>>)
    IN
    /\ docs' = newdocs
    /\ nfail' = nfail + SumOver(EColls \X EKeys, LAMBDA p : fDoc(p[1], p[2])) + fTimer

Timeline(e) ==
    LET f(c, k) ==
          LET d == docs[c][k]
              ft == FateOf(e, c, k) IN
          \* did the same key expire in another collection at that time? then it is also an isolation failure (C11)
          LET cross == \E c2 \in EColls \ {c} : docs[c2][k].dl > 0 /\ ft.goneat >= docs[c2][k].dl
              pr == IF cross THEN {"C14", "C11"} ELSE {"C14"} IN
          IF ~d.live THEN 0
          ELSE IF d.dl = 0
          THEN F2(ft.goneat = -1, pr, e, <<"never-expiring-document-gone", c, k>>, -1, ft.goneat)
          ELSE F2(ft.goneat = -1 \/ ft.goneat >= d.dl, pr, e, <<"gone-before-deadline", c, k>>, d.dl, ft.goneat)
               + F(ft.goneat # -1 /\ ft.goneat <= d.dl + Slack, e, <<"not-expired-in-time", c, k>>, d.dl, <<ft.goneat, ft.watched>>)
               \* the document went in time but the running feed was not told: the feed was starved (C16) of a mutation (C08)
               + F2(ft.delevat # -1 /\ ft.delevat <= d.dl + Slack,
                    IF ft.goneat # -1 /\ ft.goneat <= d.dl + Slack THEN {"C14", "C16", "C08"} ELSE {"C14"},
                    e, <<"no-deletion-event", c, k>>, d.dl, ft.delevat)
    IN
    /\ docs' = docs
    /\ nfail' = nfail + SumOver(EColls \X EKeys, LAMBDA p : f(p[1], p[2]))

TNext ==
    /\ l <= Len(TraceLog)
    /\ l' = l + 1
    /\ LET e == TraceLog[l] IN
       CASE e.k = "reset" -> docs' = [c \in EColls |-> [k \in EKeys |-> NoDoc]] /\ nfail' = nfail
         [] e.k = "op" -> OpLine(e)
         [] OTHER -> Timeline(e)
TSpec == TInit /\ [][TNext]_tvars
Accepted == TLCGet("stats").diameter - 1 = Len(TraceLog)
=============================================================================
