------------------------------ MODULE ViewTrace ------------------------------
(***************************************************************************)
(* Trace validation of the view family (C12): the action lists generated   *)
(* from RosmarView, as the real code executed them with the physical clock *)
(* standing still.  Regular writes are replayed with the CAS the real      *)
(* clock handed out (relative to the script's base), so the validation     *)
(* does not depend on how the clock counts; every query must return        *)
(* exactly the rows of the specification's index - after an update for a   *)
(* non-stale query, as it is for stale=ok.                                  *)
(***************************************************************************)
EXTENDS RosmarView, IOUtils, FiniteSetsExt

TraceLog == ndJsonDeserialize(IOEnv.VERIF_TRACE)
VARIABLES l, nfail
tvars == <<vars, l, nfail>>

RowsOf(e) == {<<e.rows[i][1], e.rows[i][2], e.rows[i][3]>> : i \in 1..Len(e.rows)}
Fail(e, what, exp, got) == PrintT(<<"FAIL", {"C12"}, e.tr, e.i, "view", e.a, what, exp, got>>)
F(ok, e, what, exp, got) == IF ok THEN 0 ELSE IF Fail(e, what, exp, got) THEN 1 ELSE 1

TInit == Init /\ l = 1 /\ nfail = 0

Step(e) ==
    CASE e.a = "reset" ->
           /\ docs' = [k \in Keys |-> NoDoc] /\ clock' = 0 /\ cmark' = 0 /\ omark' = 0 /\ vlast' = 0 /\ rows' = {} /\ dv' = 0 /\ nver' = 0
           /\ nfail' = nfail
      [] e.a = "write" -> IF e.res = "ok" /\ (e.kd = "tomb" => docs[e.k].kind \in {"emit", "skip"})
                          THEN WriteC(e.k, e.kd, e.cas) /\ nfail' = nfail
                          ELSE /\ UNCHANGED <<docs, clock, cmark, omark, vlast, rows, dv, nver>>
                               /\ nfail' = nfail + F(FALSE, e, <<"write-failed", e.kd>>, "ok", e.res)
      [] e.a = "other" -> WriteOtherC(e.cas) /\ nfail' = nfail + F(e.res = "ok", e, <<"write-failed">>, "ok", e.res)
      [] e.a = "meta" -> MetaC(e.k, e.c, e.kd) /\ nfail' = nfail + F(e.res = "ok", e, <<"write-failed", e.kd>>, "ok", e.res)
      [] e.a = "purge" -> PurgeC /\ nfail' = nfail
      [] e.a = "replace" -> Replace /\ nfail' = nfail
      \* a non-stale query returns the map of the current documents (the property itself), which is also what the
      \* specification's index holds after its update
      [] e.a = "query" -> Update /\ nfail' = nfail + F(e.res = "ok" /\ RowsOf(e) = Expected, e, <<"non-stale-rows", vlast, Mark>>, Expected, <<e.res, RowsOf(e)>>)
                                                     + F(Updated = Expected, e, <<"index-model-diverges", vlast, Mark>>, Expected, Updated)
      [] e.a = "staleok" -> QueryStaleOk /\ nfail' = nfail + F(e.res = "ok" /\ RowsOf(e) = rows, e, <<"stale-ok-rows", vlast, Mark>>, rows, <<e.res, RowsOf(e)>>)
      [] OTHER -> UNCHANGED <<docs, clock, cmark, omark, vlast, rows, dv, nver, nfail>>

TNext == /\ l <= Len(TraceLog) /\ l' = l + 1
         /\ steps' = steps /\ hist' = hist
         /\ Step(TraceLog[l])
TSpec == TInit /\ [][TNext]_tvars
Accepted == TLCGet("stats").diameter - 1 = Len(TraceLog)
=============================================================================
