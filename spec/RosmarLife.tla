----------------------------- MODULE RosmarLife -----------------------------
(***************************************************************************)
(* The lifecycle system built from RosmarLifeOps: model checking (Leg A)   *)
(* and behaviour generation (Leg B).  See RosmarLifeOps for the semantics. *)
(***************************************************************************)
EXTENDS RosmarLifeOps

---------------------------------------------------------------------------
CONSTANT MaxSteps
VARIABLES S, steps, hist, pick
vars == <<S, steps, hist, pick>>

Init == S = Init0 /\ steps = 0 /\ hist = <<>> /\ pick = Act("-", "h1", "-", "-", "-", "-", "-", "-")

Next == /\ steps < MaxSteps
        /\ \E a0 \in Enabled(S) : LET a == [a0 EXCEPT !.id = steps + 1] IN S' = Apply(S, a) /\ pick' = a
        /\ steps' = steps + 1
        /\ hist' = hist
Spec == Init /\ [][Next]_vars
View == <<S, steps>>

(* behaviour generation (tlc -simulate): one random enabled action per step, biased towards progress *)
Weighted(S0) ==
    LET en == Enabled(S0)
        opens == {a \in en : a.kind = "Open"}
        others == en \ opens IN
    IF others = {} \/ RandomElement(1..10) <= 3 THEN RandomElement(IF opens = {} THEN en ELSE opens) ELSE RandomElement(others)
GenNext ==
    /\ steps < MaxSteps
    /\ pick' = [Weighted(S) EXCEPT !.id = steps + 1]
    /\ S' = Apply(S, pick')
    /\ steps' = steps + 1
    /\ hist' = Append(hist, pick')
    /\ (steps' < MaxSteps \/ PrintT("BEHAVIOUR " \o ToJson(hist')))
GenSpec == Init /\ [][GenNext]_vars

---------------------------------------------------------------------------
(* C13 *)
CountEqualsOpenHandles == \A n \in Names : S.reg[n].cnt = Cardinality(OpenHandlesOf(S, n))
DiskRegisteredIffOpen ==
    \A n \in Names : (Registered(S, n) /\ S.reg[n].url # "mem") => S.reg[n].cnt > 0
OpenHandleHasStore ==
    \A h \in Handles : S.hs[h].st = "open" => (S.store[S.hs[h].n][S.hs[h].u].exists /\ S.reg[S.hs[h].n].url = S.hs[h].u)
DiskDataSurvivesClose ==   \* closing never removes data: only CloseAndDelete does
    [][pick'.kind = "Close" => \A n \in Names, u \in Urls : S'.store[n][u] = S.store[n][u]]_vars
OtherHandlesUnaffectedByClose ==
    [][pick'.kind = "Close" => \A h \in Handles : h # pick'.h => S'.hs[h] = S.hs[h]]_vars
(* C16 *)
RunningFeedHasOpenStore ==
    \A f \in FeedIds : S.fd[f].st = "running" => (Registered(S, S.fd[f].n) /\ S.store[S.fd[f].n][S.fd[f].u].exists)
DoneIffEnded == \A f \in FeedIds : S.fd[f].done <=> S.fd[f].st = "ended"
FeedsEndOnlyForAReason ==
    [][\A f \in FeedIds : (S.fd[f].st = "running" /\ S'.fd[f].st = "ended") =>
          \/ (pick'.kind = "StopFeed" /\ pick'.f = f)
          \/ (pick'.kind = "CloseAndDelete" /\ S.hs[pick'.h].n = S.fd[f].n)
          \/ (pick'.kind = "Close" /\ S.hs[pick'.h].n = S.fd[f].n /\ S.fd[f].u # "mem" /\ S.reg[S.fd[f].n].cnt = 1)
          \/ (pick'.kind = "Drop" /\ S.hs[pick'.h].n = S.fd[f].n /\ S.fd[f].colls = {"c1"})]_vars
=============================================================================
