----------------------------- MODULE RosmarLife -----------------------------
(***************************************************************************)
(* The lifecycle system built from RosmarLifeOps: model checking (Leg A)   *)
(* and behaviour generation (Leg B).  See RosmarLifeOps for the semantics. *)
(***************************************************************************)
EXTENDS RosmarLifeOps

---------------------------------------------------------------------------
CONSTANT MaxSteps
VARIABLES S, steps, hist, pick
vars == <<S, steps, hist, pick>>

Init == S = Init0 /\ steps = 0 /\ hist = <<>> /\ pick = Act("-", "h1", "-", "-", "-", "-", "-", "-")

(* Generation starts from one of several scripted prefixes (states that random walks reach rarely):        *)
(* two handles on one bucket; a bucket deleted through one handle while another stays open, then           *)
(* re-created under the same name; a bucket with feeds started through different handles.                  *)
RECURSIVE ApplySeq(_, _, _)
ApplySeq(S0, seq, i) == IF i > Len(seq) THEN S0 ELSE ApplySeq(Apply(S0, [seq[i] EXCEPT !.id = i]), seq, i + 1)
Prefixes ==
    LET om(h, n, u, m) == Act("Open", h, n, u, m, "-", "-", "-")
        o(h, n, u) == om(h, n, u, "CreateOrOpen")
        cl(h) == Act("Close", h, "-", "-", "-", "-", "-", "-")
        cad(h) == Act("CloseAndDelete", h, "-", "-", "-", "-", "-", "-")
        sf(h, c, f, fk) == Act("StartFeed", h, "-", "-", "-", c, f, fk)
        w(h, c) == Act("Write", h, "-", "-", "-", c, "-", "-")
        drop(h) == Act("Drop", h, "-", "-", "-", "c1", "-", "-") IN
    { <<>>,
      <<o("h1", "A", "d1"), o("h2", "A", "d1")>>,
      <<o("h1", "A", "mem"), o("h2", "A", "mem")>>,
      <<o("h1", "A", "d1"), o("h2", "A", "d1"), cad("h1"), o("h3", "A", "d1"), o("h4", "A", "d1")>>,
      <<o("h1", "B", "mem"), o("h2", "B", "mem"), cad("h2"), o("h3", "B", "mem")>>,
      <<o("h1", "A", "d2"), o("h2", "A", "d2"), sf("h1", "c0", "f1", "live"), sf("h2", "c1", "f2", "live"), w("h1", "c1")>>,
      <<o("h1", "A", "d1"), w("h1", "c1"), sf("h1", "c0", "f1", "multi")>>,
      \* data on disk after the last handle closed: every open mode afterwards, refused ones included
      <<o("h1", "A", "d1"), w("h1", "c0"), w("h1", "c1"), cl("h1"), om("h2", "A", "d1", "CreateNew"), om("h2", "A", "d1", "ReOpenExisting")>>,
      <<o("h1", "B", "d2"), w("h1", "c0"), cl("h1"), om("h2", "B", "d2", "CreateNew"), om("h2", "B", "d2", "CreateOrOpen"), cl("h2"),
        om("h3", "B", "d1", "ReOpenExisting")>>,
      <<o("h1", "B", "mem"), w("h1", "c0"), cl("h1"), om("h2", "B", "mem", "CreateNew"), om("h2", "B", "mem", "ReOpenExisting")>>,
      \* a left-over handle of a deleted bucket is closed while its namesake (one handle / two handles) runs a feed
      <<o("h1", "A", "d1"), o("h2", "A", "d1"), cad("h1"), o("h3", "A", "d1"), sf("h3", "c0", "f1", "live"), cl("h2"), w("h3", "c0")>>,
      <<o("h1", "A", "d1"), o("h2", "A", "d1"), cad("h1"), o("h3", "A", "d1"), o("h4", "A", "d1"), sf("h4", "c0", "f1", "live"),
        cl("h2"), cl("h3"), w("h4", "c0")>>,
      <<o("h1", "B", "mem"), o("h2", "B", "mem"), cad("h1"), o("h3", "B", "mem"), sf("h3", "c1", "f1", "live"), cl("h2"), cl("h2"), w("h3", "c1")>>,
      \* a bucket-level dump over collections of the same name in two scopes, one of which takes longer
      <<o("h1", "A", "mem"), w("h1", "c1"), w("h1", "c3"), w("h1", "c1"), w("h1", "c3"), w("h1", "c0"), sf("h1", "c0", "f1", "mdump"), w("h1", "c0")>>,
      <<o("h1", "B", "d2"), w("h1", "c3"), w("h1", "c1"), w("h1", "c3"), w("h1", "c1"), sf("h1", "c0", "f1", "mdump")>>,
      \* a bucket-level feed over collections of the same name in two scopes loses one of them
      <<o("h1", "A", "mem"), sf("h1", "c0", "f1", "multi"), w("h1", "c1"), w("h1", "c3"), drop("h1"), w("h1", "c0"), w("h1", "c3")>>,
      <<o("h1", "B", "d1"), o("h2", "B", "d1"), sf("h2", "c0", "f1", "multi"), drop("h1"), w("h2", "c3"), w("h1", "c0")>>,
      \* an in-memory bucket is deleted through a handle that was closed before, no handle being open
      <<o("h1", "B", "mem"), w("h1", "c0"), cl("h1"), cad("h1"), om("h2", "B", "mem", "ReOpenExisting")>>,
      <<o("h1", "A", "mem"), o("h2", "A", "mem"), cl("h1"), cl("h2"), cad("h2"), om("h3", "A", "mem", "CreateNew")>>,
      <<o("h1", "A", "d1"), w("h1", "c1"), cl("h1"), cad("h1"), om("h2", "A", "d1", "ReOpenExisting")>>,
      \* a checkpointed feed that has delivered something ends because its bucket goes away
      <<o("h1", "A", "d1"), w("h1", "c0"), sf("h1", "c0", "f1", "ckpt"), w("h1", "c0"), cad("h1")>>,
      <<o("h1", "A", "d2"), o("h2", "A", "d2"), sf("h2", "c0", "f1", "ckpt"), w("h1", "c0"), cl("h2"), cl("h1")>>,
      <<o("h1", "B", "mem"), o("h2", "B", "mem"), sf("h1", "c1", "f1", "ckpt"), w("h2", "c1"), cl("h1"), cl("h1"), cad("h1")>>,
      \* a collection is dropped through one handle, another one is created, the other handle still holds the old one
      <<o("h1", "A", "mem"), o("h2", "A", "mem"), w("h2", "c1"), drop("h1"), w("h1", "c2"), w("h2", "c1"), w("h1", "c2")>>,
      <<o("h1", "A", "d1"), o("h2", "A", "d1"), w("h2", "c1"), w("h1", "c1"), drop("h2"), w("h2", "c2"), w("h1", "c1")>>,
      \* an in-memory bucket whose URL names the directory of another bucket's on-disk data
      <<o("h1", "B", "d1"), w("h1", "c0"), cl("h1"), o("h2", "A", "mp"), w("h2", "c0"), cad("h2"), om("h3", "B", "d1", "ReOpenExisting")>>,
      <<o("h1", "A", "d1"), w("h1", "c1"), o("h2", "B", "mp"), cl("h1"), cl("h2"), cad("h2")>>,
      \* calls through a handle whose bucket was deleted through another one, then calls through a third
      \* one of two feeds of a collection is stopped; the other one - checkpointed - goes on and is stopped and resumed later
      <<o("h1", "A", "mem"), sf("h1", "c0", "f1", "live"), sf("h1", "c0", "f2", "ckpt"), Act("StopFeed", "h1", "-", "-", "-", "-", "f1", "-"),
        w("h1", "c0"), w("h1", "c0")>>,
      <<o("h1", "B", "d1"), o("h2", "B", "d1"), sf("h2", "c1", "f1", "live"), sf("h1", "c1", "f2", "ckpt"), w("h2", "c1"),
        Act("StopFeed", "h1", "-", "-", "-", "-", "f1", "-"), w("h2", "c1"), w("h1", "c1")>>,
      \* (the handles have been used before, so they hold their collections)
      <<o("h1", "A", "mem"), o("h2", "A", "mem"), o("h3", "A", "mem"), w("h2", "c0"), w("h3", "c0"), cad("h1"), sf("h2", "c0", "f1", "dump"), w("h3", "c0")>>,
      <<o("h1", "B", "d1"), o("h2", "B", "d1"), o("h3", "B", "d1"), w("h2", "c1"), w("h3", "c1"), w("h3", "c0"), cad("h1"), sf("h2", "c1", "f1", "dump"),
        w("h3", "c1"), sf("h3", "c0", "f2", "mdump")>> }
(* every prefix is an initial state: the simulator picks one of them for each behaviour *)
GenInit == \E pre \in Prefixes :
              /\ S = ApplySeq(Init0, pre, 1) /\ steps = Len(pre)
              /\ hist = [i \in 1..Len(pre) |-> [pre[i] EXCEPT !.id = i]]
              /\ pick = Act("-", "h1", "-", "-", "-", "-", "-", "-")

Next == /\ steps < MaxSteps
        /\ \E a0 \in Enabled(S) : LET a == [a0 EXCEPT !.id = steps + 1] IN S' = Apply(S, a) /\ pick' = a
        /\ steps' = steps + 1
        /\ hist' = hist
Spec == Init /\ [][Next]_vars
View == <<S, steps>>

(* behaviour generation (tlc -simulate): one random enabled action per step, biased towards progress *)
Weighted(S0) ==
    LET en == Enabled(S0)
        opens == {a \in en : a.kind = "Open"}
        others == en \ opens IN
    IF others = {} \/ RandomElement(1..10) <= 3 THEN RandomElement(IF opens = {} THEN en ELSE opens) ELSE RandomElement(others)
GenNext ==
    /\ steps < MaxSteps
    /\ pick' = [Weighted(S) EXCEPT !.id = steps + 1]
    /\ S' = Apply(S, pick')
    /\ steps' = steps + 1
    /\ hist' = Append(hist, pick')
    /\ (steps' < MaxSteps \/ PrintT("BEHAVIOUR " \o ToJson(hist')))
GenSpec == GenInit /\ [][GenNext]_vars

---------------------------------------------------------------------------
(* C13 *)
CountEqualsOpenHandles == \A n \in Names : S.reg[n].cnt = Cardinality(OpenHandlesOf(S, n))
DiskRegisteredIffOpen ==
    \A n \in Names : (Registered(S, n) /\ S.reg[n].url \notin MemUrls) => S.reg[n].cnt > 0
OpenHandleHasStore ==
    \A h \in Handles : S.hs[h].st = "open" => (S.store[S.hs[h].n][S.hs[h].u].exists /\ S.reg[S.hs[h].n].url = S.hs[h].u)
DiskDataSurvivesClose ==   \* closing never removes data: only CloseAndDelete does
    [][pick'.kind = "Close" => \A n \in Names, u \in Urls : S'.store[n][u] = S.store[n][u]]_vars
OtherHandlesUnaffectedByClose ==
    [][pick'.kind = "Close" => \A h \in Handles : h # pick'.h => S'.hs[h] = S.hs[h]]_vars
(* C16 *)
RunningFeedHasOpenStore ==
    \A f \in FeedIds : S.fd[f].st = "running" => (Registered(S, S.fd[f].n) /\ S.store[S.fd[f].n][S.fd[f].u].exists)
DoneIffEnded == \A f \in FeedIds : S.fd[f].done <=> S.fd[f].st = "ended"
FeedsEndOnlyForAReason ==
    [][\A f \in FeedIds : (S.fd[f].st = "running" /\ S'.fd[f].st = "ended") =>
          \/ (pick'.kind = "StopFeed" /\ pick'.f = f)
          \/ (pick'.kind = "CloseAndDelete" /\ S.hs[pick'.h].n = S.fd[f].n)
          \/ (pick'.kind = "Close" /\ S.hs[pick'.h].n = S.fd[f].n /\ S.fd[f].u \notin MemUrls /\ S.reg[S.fd[f].n].cnt = 1)
          \/ (pick'.kind = "Drop" /\ S.hs[pick'.h].n = S.fd[f].n /\ S.fd[f].colls = {"c1"})]_vars
=============================================================================
