------------------------------ MODULE GenCover ------------------------------
(***************************************************************************)
(* Directed behaviour generation for the sequential family (Leg B).        *)
(* Random walks (GenSeq) reach a given pair (state of the key, operation   *)
(* instance) only by luck.  This module enumerates the pairs instead:      *)
(*                                                                         *)
(*    behaviour = prefix ; instance ; probe                                *)
(*                                                                         *)
(* prefix   one of the scripted histories below; each leaves (c1, k1) in a *)
(*          different class of state, reached through a different entry    *)
(*          point (never written, live with/without xattrs and expiry,     *)
(*          numeric, raw, deleted by Delete / by a tombstone write / by    *)
(*          DeleteWithMeta / by SetWithMeta without a body, deleted with   *)
(*          and without xattrs, resurrected, xattrs without a body);       *)
(* instance every operation instance of RosmarSeq!ArgsFor(op), or a random *)
(*          subset of Cap instances when an operation has more;            *)
(* probe    one more call chosen at random from a few that tell states     *)
(*          apart which read alike (an inserter, a conditional write, a    *)
(*          deletion, a body-preserving xattr write).                      *)
(*                                                                         *)
(* TLC explores the one-step system breadth-first, so each (prefix,        *)
(* operation, sampled instance) is printed exactly once; the Go harness    *)
(* executes the printed behaviours and SeqTrace validates them like any    *)
(* other sequential trace.                                                 *)
(***************************************************************************)
EXTENDS RosmarSeq, Randomization

CONSTANT Cap          \* instances per (prefix, operation); at least |ArgsFor(op)| = all of them

VARIABLES hist
cvars == <<store, clock, nops, last, hist>>

Call(op, c, k, a) ==
    [op |-> op, coll |-> c, key |-> k, exp |-> a.exp, pres |-> a.pres, casc |-> a.casc, body |-> a.btok, opt |-> a.opt,
     sets |-> a.sets, dels |-> {x \in XNames : a.dels[x]}, db |-> a.db, amt |-> a.amt, def |-> a.def, path |-> a.path,
     val |-> a.val, newc |-> a.newc, cb |-> a.cb, json |-> a.json, h |-> ""]
T(op, a) == Call(op, "c1", "k1", a)

S1 == Sets1("_s", XA("x1", FALSE, FALSE))
SU == [NoSets EXCEPT !["_s"] = XA("x1", FALSE, FALSE), !["u"] = XA("x2", FALSE, FALSE)]

Prefixes ==
    { <<>>,                                                                                   \* never written
      <<T("Set", WithBody(A0, "J1"))>>,                                                       \* live, JSON
      <<T("Set", WithBody([A0 EXCEPT !.exp = "E1"], "J3"))>>,                                 \* live with expiry, nested body
      <<T("WriteWithXattrs", WithBody([A0 EXCEPT !.sets = SU], "J2"))>>,                      \* live with system + user xattrs
      <<T("Incr", [A0 EXCEPT !.amt = 1, !.def = 3])>>,                                        \* live, numeric
      <<T("SetRaw", WithBody(A0, "R1"))>>,                                                    \* live, not JSON
      <<T("Set", WithBody(A0, "J1")), T("Delete", A0)>>,                                      \* tombstone without xattrs
      <<T("WriteWithXattrs", WithBody([A0 EXCEPT !.sets = SU, !.exp = "E1"], "J2")), T("Delete", A0)>>,  \* tombstone keeping _s
      <<T("WriteTombstoneWithXattrs", [A0 EXCEPT !.sets = S1])>>,                             \* tombstone created as such
      <<T("SetXattrs", [A0 EXCEPT !.sets = S1])>>,                                            \* xattrs, never a body
      <<T("Set", WithBody(A0, "J1")), T("DeleteWithMeta", [A0 EXCEPT !.casc = "cur", !.sets = S1])>>,    \* deleted by DeleteWithMeta
      <<T("SetWithMeta", [A0 EXCEPT !.sets = S1])>>,                                          \* SetWithMeta without a body
      <<T("Set", WithBody(A0, "J1")), T("Delete", A0), T("Add", WithBody(A0, "J2"))>>,        \* deleted and re-created
      <<T("Set", WithBody(A0, "J2")), T("UpdateXattrDeleteBody", [A0 EXCEPT !.casc = "cur", !.sets = S1])>>,  \* body removed by an xattr write
      <<T("WriteCas", WithBody([A0 EXCEPT !.opt = "addonly", !.exp = "E1"], "J1")), T("Remove", [A0 EXCEPT !.casc = "cur"])>>,
      <<T("SetRaw", WithBody(A0, "R0"))>>,                                                    \* live, a body of no bytes
      <<T("WriteTombstoneWithXattrs", [A0 EXCEPT !.sets = S1, !.exp = "E1"])>>,               \* tombstone with an expiry
      <<T("WriteWithXattrs", WithBody([A0 EXCEPT !.sets = SU], "J2")),
        T("UpdateXattrDeleteBody", [A0 EXCEPT !.casc = "cur", !.sets = S1, !.exp = "E1"])>> }  \* body removed, expiry given

Probes ==
    { T("Add", WithBody(A0, "J2")),
      T("WriteCas", WithBody([A0 EXCEPT !.casc = "cur"], "J1")),
      T("WriteCas", WithBody(A0, "J2")),
      T("Delete", A0),
      T("Set", WithBody([A0 EXCEPT !.pres = TRUE], "J2")),
      T("UpdateXattrs", [A0 EXCEPT !.casc = "cur", !.sets = Sets1("u", XA("x1", FALSE, FALSE))]),
      T("WriteResurrectionWithXattrs", WithBody([A0 EXCEPT !.sets = S1], "J1")),
      T("Incr", [A0 EXCEPT !.amt = 1]),
      T("WriteSubDoc", [A0 EXCEPT !.path = "a", !.val = "s2"]),
      T("Touch", [A0 EXCEPT !.exp = "E2"]) }

(* after a copy that keeps the CAS of the same key elsewhere: calls that find their row by CAS, or might *)
SibProbes ==
    { T("WriteCas", WithBody([A0 EXCEPT !.casc = "cur"], "J1")),
      T("Touch", [A0 EXCEPT !.exp = "E2"]),
      T("GetAndTouchRaw", [A0 EXCEPT !.exp = "E1"]),
      T("Remove", [A0 EXCEPT !.casc = "cur"]),
      T("UpdateXattrs", [A0 EXCEPT !.casc = "cur", !.sets = Sets1("u", XA("x1", FALSE, FALSE))]),
      T("WriteSubDoc", [A0 EXCEPT !.path = "a", !.val = "s2", !.casc = "cur"]) }

(* the same key in another collection and another key in the same collection, so that leaks show *)
Neighbours == <<Call("Set", "c0", "k1", WithBody([A0 EXCEPT !.exp = "E2"], "J3")), Call("Add", "c1", "k2", WithBody(A0, "J1"))>>

(* the plainest instances of the operations with the largest argument spaces are always included: nothing to set, *)
(* nothing to remove, no expiry, no option - the calls in which "leave everything else alone" is the whole effect    *)
Corners(op) ==
    IF op \in {"WriteWithXattrs", "WriteUpdateWithXattrs", "SetWithMeta", "DeleteWithMeta", "WriteCas"}
    THEN {a \in ArgsFor(op) : a.sets = NoSets /\ a.dels = NoDels /\ a.exp = "0" /\ ~a.pres /\ a.casc \in {"zero", "cur"}
                               /\ a.newc \in {"hi", "btw"}}
         \cup {a \in ArgsFor(op) : a.opt = "emptyx" /\ a.newc = "hi"}
         \cup {a \in ArgsFor(op) : a.casc = "sibkey" \/ a.newc = "sib"}
    ELSE {}
Sample(op) == IF Cardinality(ArgsFor(op)) <= Cap THEN ArgsFor(op) ELSE RandomSubset(Cap, ArgsFor(op)) \cup Corners(op)

CoverNext ==
    /\ hist = <<>>
    /\ \E pre \in Prefixes, op \in OpSet :
         \E a \in Sample(op) :
            \* (an instance that refers to a neighbouring document needs the neighbours; a copy that keeps the CAS of the
            \*  same key elsewhere is followed by a write conditional on exactly that CAS)
            /\ hist' = (IF a.newc = "sib" \/ a.casc = "sibkey" \/ RandomElement(1..3) = 1 THEN Neighbours ELSE <<>>) \o pre \o <<[T(op, a) EXCEPT !.h = RandomElement({"", "", "h2"})]>>     \* (sometimes through the bucket's second handle)
                        \o <<IF a.newc = "sib" THEN RandomElement(SibProbes) ELSE RandomElement(Probes)>>
            /\ PrintT(<<"BEHAVIOUR", ToJson(hist')>>)
    /\ UNCHANGED vars
CoverInit == Init /\ hist = <<>>
CoverSpec == CoverInit /\ [][CoverNext]_cvars
=============================================================================
