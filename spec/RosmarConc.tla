----------------------------- MODULE RosmarConc -----------------------------
(***************************************************************************)
(* Concurrent clients, a feed and its runner on one key of one collection, *)
(* at the granularity of rosmar's critical sections:                       *)
(*                                                                         *)
(*   blind write   : Txn (lock, BEGIN, SQL, COMMIT, unlock) ; Post         *)
(*   Update-style  : Read ; Txn (callback + CAS write; mismatch => Read)   *)
(*                   ; Post                                                *)
(*   Incr          : Txn (read-modify-write inside one transaction) ; Post *)
(*   CAS write     : Txn with the CAS the client holds ; Post              *)
(*   StartDCPFeed  : Backfill ; Register ; Return                          *)
(*   feed runner   : Deliver (one queued event)                            *)
(*   stop          : CloseQueue (drops queued events) ; the runner then    *)
(*                   writes its checkpoint (itself a write: Txn ; Post)    *)
(*                                                                         *)
(* Two switches select the INTENDED design (TRUE) or the step structure of *)
(* the code before its repair (FALSE):                                     *)
(*   PostUnderLock  - the event is pushed to the feeds before any other    *)
(*                    writer can commit (commit+post is one step)          *)
(*   RegisterAtomic - backfill query and feed registration are one step    *)
(*                    with respect to commit+post                          *)
(* With both TRUE the invariants below hold (Leg A).  The behaviours of    *)
(* the FALSE/FALSE configuration are all interleavings the gate scheduler  *)
(* can produce on the real code; they are dumped and replayed (Leg B).     *)
(***************************************************************************)
EXTENDS Integers, Sequences, FiniteSets, TLC, Json

CONSTANTS Clients,        \* set of client process names, e.g. {"p1","p2"}
          Kinds,          \* operation kinds the clients may run: "set" | "casw" | "update" | "incr" | "get" | "remove"
          HasFeed,        \* BOOLEAN: a process "f" starts a feed with backfill; "run" delivers
          FeedBackfill,   \* BOOLEAN: the feed backfills from 0
          Stops,          \* number of stop/restart cycles of the (checkpointed) feed
          InitDoc,        \* BOOLEAN: the key exists (value 0) before the clients start
          FeedInit,       \* "start": the feed is started during the run; "running": it runs before the clients start
          DeliverLast,    \* BOOLEAN: (generation only) deliveries are scheduled after all clients are done
          EnterGate,      \* BOOLEAN: a client's code before it takes the bucket mutex is a step of its own (gate txn.enter)
          PostUnderLock, RegisterAtomic

VARIABLES prog,      \* [Clients -> Kinds]: what each client runs (chosen initially, then constant)
          doc,       \* [cas, val, live]   the key's document (cas 0 = absent)
          clock,     \* last CAS issued
          pc,        \* [Clients -> "start" | "read" | "txn" | "post" | "done"]
          seen,      \* [Clients -> [cas, val]]  version a client last read / was shown
          pend,      \* [Clients -> CAS of the event not yet posted (0 = none)]
          okcount,   \* [Clients -> number of successful mutations]
          fpc,       \* feed starter: "idle" | "start" | "backfilled" | "registered" | "running" | "stopping" | "ckpt" | "ckptpost" | "stopped" | "off"
          queue,     \* the feed's event queue (sequence of CAS; -1 / -2 = begin / end markers)
          delivered, \* what the callback has received, all runs together
          lastRun,   \* what the current run has received
          ckpt,      \* persisted checkpoint (CAS)
          ckpend,    \* checkpoint write's event not yet posted
          stops,     \* stop/restart cycles done
          held,      \* the event the runner has pulled off the queue and not yet handed to the callback (0 = none):
                     \* closing the queue does not take it back
          dropped,   \* history: a stop discarded the queued mutation whose CAS directly follows the checkpoint
                     \* (such schedules are preferred when sampling)
          sched      \* the schedule so far (sequence of process names) - observation only
vars == <<prog, doc, clock, pc, seen, pend, okcount, fpc, queue, delivered, lastRun, ckpt, ckpend, stops, dropped, held, sched>>

Registered == fpc \in {"registered", "running", "stopping"}

(* posting an event: a runner that is waiting on the empty queue takes it at once *)
RunnerWaiting == fpc = "running" /\ held = 0 /\ queue = <<>>
Push(q, c) == IF Registered /\ ~RunnerWaiting THEN Append(q, c) ELSE q
Take(c) == IF Registered /\ RunnerWaiting THEN c ELSE held

Init ==
    /\ prog \in [Clients -> Kinds]
    /\ doc = IF InitDoc THEN [cas |-> 1, val |-> 0, live |-> TRUE] ELSE [cas |-> 0, val |-> 0, live |-> FALSE]
    /\ clock = IF InitDoc THEN 1 ELSE 0
    /\ pc = [p \in Clients |-> IF EnterGate THEN "enter" ELSE "start"]
    /\ seen = [p \in Clients |-> [cas |-> IF InitDoc THEN 1 ELSE 0, val |-> 0]]
    /\ pend = [p \in Clients |-> 0]
    /\ okcount = [p \in Clients |-> 0]
    /\ fpc = IF HasFeed THEN FeedInit ELSE "off"
    /\ queue = <<>>
    /\ delivered = <<>>
    /\ lastRun = <<>>
    /\ ckpt = 0
    /\ dropped = FALSE
    /\ held = 0
    /\ ckpend = 0
    /\ stops = 0
    /\ sched = <<>>

(* a committed mutation by client p with new CAS n: post now or later *)
Commit(p, newdoc, n) ==
    /\ doc' = newdoc
    /\ clock' = n
    /\ okcount' = [okcount EXCEPT ![p] = @ + 1]
    /\ IF PostUnderLock
       THEN /\ queue' = Push(queue, n)
            /\ held' = Take(n)
            /\ pend' = pend
            /\ pc' = [pc EXCEPT ![p] = "done"]
       ELSE /\ queue' = queue
            /\ held' = held
            /\ pend' = [pend EXCEPT ![p] = n]
            /\ pc' = [pc EXCEPT ![p] = "post"]

Fail(p, next) ==
    /\ pc' = [pc EXCEPT ![p] = next]
    /\ UNCHANGED <<prog, doc, clock, okcount, queue, pend, dropped, held>>

(* the client's code up to the point where it asks for the bucket mutex: no shared state is touched *)
Enter(p) ==
    /\ pc[p] = "enter"
    /\ pc' = [pc EXCEPT ![p] = "start"]
    /\ UNCHANGED <<prog, doc, clock, seen, pend, okcount, queue, fpc, delivered, lastRun, ckpt, ckpend, stops, dropped, held>>

(* first step of a client *)
Start(p) ==
    /\ pc[p] = "start"
    /\ LET n == clock + 1 IN
       CASE prog[p] = "set" ->
              /\ Commit(p, [cas |-> n, val |-> 100, live |-> TRUE], n) /\ seen' = seen
         [] prog[p] = "incr" ->
              /\ Commit(p, [cas |-> n, val |-> doc.val + 1, live |-> TRUE], n) /\ seen' = seen
         [] prog[p] = "remove" ->      \* Remove with the CAS the client read before the run started
              /\ seen' = seen
              /\ IF doc.live /\ doc.cas = seen[p].cas
                 THEN Commit(p, [cas |-> n, val |-> 0, live |-> FALSE], n)
                 ELSE Fail(p, "done")
         [] prog[p] = "casw" ->        \* WriteCas with the CAS the client read before the run started
              /\ seen' = seen
              /\ IF doc.live /\ doc.cas = seen[p].cas
                 THEN Commit(p, [cas |-> n, val |-> seen[p].val + 1, live |-> TRUE], n)
                 ELSE Fail(p, "done")
         [] prog[p] = "update" ->      \* the read phase of an Update-style loop
              /\ seen' = [seen EXCEPT ![p] = [cas |-> doc.cas, val |-> doc.val]]
              /\ pc' = [pc EXCEPT ![p] = "txn"]
              /\ UNCHANGED <<prog, doc, clock, okcount, queue, pend, dropped, held>>
         [] prog[p] = "get" ->
              /\ seen' = [seen EXCEPT ![p] = [cas |-> doc.cas, val |-> doc.val]]
              /\ pc' = [pc EXCEPT ![p] = "done"]
              /\ UNCHANGED <<prog, doc, clock, okcount, queue, pend, dropped, held>>
    /\ UNCHANGED <<prog, fpc, delivered, lastRun, ckpt, ckpend, stops, dropped>>

(* callback + CAS write of an Update-style loop; a mismatch goes back to reading *)
Txn(p) ==
    /\ pc[p] = "txn"
    /\ seen' = seen
    /\ LET n == clock + 1 IN
       IF doc.cas = seen[p].cas
       THEN Commit(p, [cas |-> n, val |-> seen[p].val + 1, live |-> TRUE], n)
       ELSE Fail(p, "start")
    /\ UNCHANGED <<prog, fpc, delivered, lastRun, ckpt, ckpend, stops, dropped>>

Post(p) ==
    /\ pc[p] = "post"
    /\ queue' = Push(queue, pend[p])
    /\ held' = Take(pend[p])
    /\ pend' = [pend EXCEPT ![p] = 0]
    /\ pc' = [pc EXCEPT ![p] = "done"]
    /\ UNCHANGED <<prog, doc, clock, seen, okcount, fpc, delivered, lastRun, ckpt, ckpend, stops, dropped>>

Max(s) == IF s = {} THEN 0 ELSE CHOOSE m \in s : \A x \in s : x <= m

(* the feed starter *)
BackfillEvents == IF doc.cas > ckpt THEN <<doc.cas>> ELSE <<>>
FeedStep ==
    \/ /\ fpc = "start"
       /\ queue' = IF FeedBackfill THEN <<-1>> \o BackfillEvents \o <<-2>> ELSE <<>>
       /\ fpc' = IF RegisterAtomic THEN "registered" ELSE "backfilled"
       /\ lastRun' = <<>>
       /\ UNCHANGED <<prog, doc, clock, pc, seen, pend, okcount, delivered, ckpt, ckpend, stops, dropped, held>>
    \/ /\ fpc = "backfilled"
       /\ fpc' = "registered"
       /\ UNCHANGED <<prog, doc, clock, pc, seen, pend, okcount, queue, delivered, lastRun, ckpt, ckpend, stops, dropped, held>>
    \/ /\ fpc = "registered"                   \* the runner starts and pulls its first event
       /\ fpc' = "running"
       /\ held' = IF queue # <<>> THEN Head(queue) ELSE 0
       /\ queue' = IF queue # <<>> THEN Tail(queue) ELSE queue
       /\ UNCHANGED <<prog, doc, clock, pc, seen, pend, okcount, delivered, lastRun, ckpt, ckpend, stops, dropped>>
    \/ /\ fpc = "running" /\ stops < Stops      \* stop: the terminator closes the queue, queued events are dropped
       /\ fpc' = "ckpt"
       /\ queue' = <<>>
       /\ stops' = stops + 1
       /\ dropped' = (dropped \/ \E i \in 1..Len(queue) :     \* ... the one right after the checkpoint to be
                                  queue[i] = 1 + Max({lastRun[j] : j \in 1..Len(lastRun)} \cup {ckpt, held}))
       /\ UNCHANGED <<prog, doc, clock, pc, seen, pend, okcount, delivered, lastRun, ckpt, ckpend, held>>

(* the feed runner *)
RunStep ==
    \/ /\ held # 0 /\ fpc \in {"running", "ckpt"}    \* hand the held event to the callback, then pull the next one
       /\ (DeliverLast => \A p \in Clients : pc[p] = "done")
       /\ delivered' = IF held > 0 THEN Append(delivered, held) ELSE delivered
       /\ lastRun' = IF held > 0 THEN Append(lastRun, held) ELSE lastRun
       /\ held' = IF fpc = "running" /\ queue # <<>> THEN Head(queue) ELSE 0
       /\ queue' = IF fpc = "running" /\ queue # <<>> THEN Tail(queue) ELSE queue
       /\ UNCHANGED <<prog, doc, clock, pc, seen, pend, okcount, fpc, ckpt, ckpend, stops, dropped>>
    \/ /\ fpc = "ckpt" /\ held = 0            \* the stopped runner persists its checkpoint (a Set of another key)
       /\ ckpt' = IF lastRun = <<>> THEN ckpt ELSE Max({lastRun[i] : i \in 1..Len(lastRun)} \cup {ckpt})
       /\ clock' = clock + 1
       /\ fpc' = "start"
       /\ UNCHANGED <<prog, doc, pc, seen, pend, okcount, queue, delivered, lastRun, ckpend, stops, dropped, held>>

Next ==
    \/ \E p \in Clients : (Enter(p) \/ Start(p) \/ Txn(p) \/ Post(p)) /\ sched' = Append(sched, p)
    \/ FeedStep /\ sched' = Append(sched, "f")
    \/ RunStep /\ sched' = Append(sched, "run")

Spec == Init /\ [][Next]_vars

View == <<prog, doc, clock, pc, seen, pend, okcount, fpc, queue, delivered, lastRun, ckpt, ckpend, stops, dropped, held>>

---------------------------------------------------------------------------
Quiescent == /\ \A p \in Clients : pc[p] = "done"
             /\ fpc \in {"running", "off"} /\ queue = <<>> /\ held = 0 /\ stops = Stops

(* C08: events reach the feed in increasing CAS order *)
FeedCasOrdered == \A i, j \in 1..Len(lastRun) : i < j => lastRun[i] < lastRun[j]
(* C09 / C15: at quiescence the key's final version has been delivered (by backfill, live, or an earlier run) *)
FinalVersionDelivered ==
    (Quiescent /\ HasFeed /\ (FeedBackfill \/ Stops > 0) /\ doc.cas > 0) => \E i \in 1..Len(delivered) : delivered[i] = doc.cas
(* C15: the persisted checkpoint never exceeds what was delivered *)
CheckpointNotAboveDelivered == ckpt <= Max({delivered[i] : i \in 1..Len(delivered)})
(* C02: two CAS writers that hold the same version never both replace it *)
AtMostOneReplaces ==
    \A p, q \in Clients : (p # q /\ prog[p] \in {"casw", "remove"} /\ prog[q] \in {"casw", "remove"}) => okcount[p] + okcount[q] <= 1
(* C03: no increment / update is lost *)
NoLostUpdate ==
    (\A p \in Clients : pc[p] = "done" /\ prog[p] \in {"incr", "update"}) =>
        doc.val = Cardinality({p \in Clients : okcount[p] > 0})
(* behaviour generation: print the schedule of every maximal behaviour *)
Terminal == (\A p \in Clients : pc[p] = "done") /\ (fpc = "off" \/ (fpc = "running" /\ queue = <<>> /\ held = 0 /\ stops = Stops))
PrintSchedules == Terminal => PrintT("SCHEDULE " \o ToJson([prog |-> prog, sched |-> sched, dropped |-> dropped]))

(* every Update eventually succeeded exactly once *)
UpdatesApplied == \A p \in Clients : (pc[p] = "done" /\ prog[p] \in {"incr", "update", "set"}) => okcount[p] = 1
=============================================================================
