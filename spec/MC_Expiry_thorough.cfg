SPECIFICATION Spec
CONSTANTS
  MaxOps = 4
  MaxT = 5
  TouchArms = TRUE
VIEW View
CHECK_DEADLOCK FALSE
INVARIANTS
  TimerCoversEarliest
  ExpiredSoon
