SPECIFICATION Spec
CONSTANTS
  MaxOps = 3
  MaxT = 5
  TouchArms = FALSE
VIEW View
CHECK_DEADLOCK FALSE
INVARIANTS
  WitnessScripts
