------------------------------ MODULE LifeTrace ------------------------------
(***************************************************************************)
(* Trace validation of the lifecycle family: every recorded action of the  *)
(* real code (open / close / delete / write / drop / feed start & stop)    *)
(* with what every handle, every feed and the registry showed afterwards   *)
(* must be a step of RosmarLife (Apply / Expect / Receivers).              *)
(***************************************************************************)
EXTENDS RosmarLifeOps, IOUtils, FiniteSetsExt

TraceLog == ndJsonDeserialize(IOEnv.VERIF_TRACE)

VARIABLES l, M, nfail,
          lag   \* deviations already reported once: [done: set of feeds whose done state differs, gor: goroutine offset]
tvars == <<l, M, nfail, lag>>

SeqToSet(s) == {s[i] : i \in 1..Len(s)}
Fail(props, e, what, exp, got) == PrintT(<<"FAIL", props, e.tr, e.i, "life", e.act.kind, what, exp, got>>)
F(ok, props, e, what, exp, got) == IF ok THEN 0 ELSE IF Fail(props, e, what, exp, got) THEN 1 ELSE 1
SumOver(X, f(_)) == FoldSet(LAMBDA x, acc : acc + f(x), 0, X)

TInit == l = 1 /\ M = Init0 /\ nfail = 0 /\ lag = [done |-> {}, gor |-> 0]

Step(e) ==
    LET \* a write through a handle whose cached collection may be stale is unconstrained; if it succeeded it is a write
        a == [force |-> e.act.kind \in {"Write", "PutDDoc"} /\ e.res = "ok"] @@ e.act
        want == Expect(M, a)
        N0 == Apply(M, a)
        \* a handle whose cached collection object may be stale may or may not re-create collection c1: what it did is
        \* taken from what the acting handle then lists
        N == IF M.hs[a.h].st = "open" /\ M.hs[a.h].stale /\ a.kind \in {"StartFeed", "Write", "PutDDoc"} /\ e.hs[a.h].cls = "ok"
             THEN [N0 EXCEPT !.store[M.hs[a.h].n][M.hs[a.h].u].c1 = e.hs[a.h].has1]
             ELSE N0
        recv == Receivers(M, a)
        \* result of the call itself; a panic or a hang is never acceptable (C20)
        fRes == IF e.res \in {"panic", "hang"}
                THEN F(FALSE, {"C20"} \cup (IF a.kind \in {"StartFeed", "StopFeed"} THEN {"C16"} ELSE {"C13"}), e, <<"call", e.res>>, want, e.err)
                ELSE F(want = "any" \/ e.res = want,
                       IF a.kind \in {"StartFeed", "StopFeed"} THEN {"C16"} ELSE {"C13"}, e,
                       <<"result", M.hs[a.h].st, a.mode>>, want, e.res)
        \* every handle: open ones see exactly their store's documents, closed ones fail closed
        fHandle(h) ==
            LET hd == N.hs[h]
                o == e.hs[h] IN
            CASE hd.st = "open" /\ ~hd.stale ->
                   LET st == N.store[hd.n][hd.u]
                       same(c, got) == SeqToSet(got) = st.docs[c]
                       \* a deviation in a collection other than the one the call addressed is (also) a breach of isolation
                       other == \/ (a.c # "c0" /\ ~same("c0", o.c0)) \/ (a.c # "c1" /\ ~same("c1", o.c1)) \/ (a.c # "c2" /\ ~same("c2", o.c2)) IN
                   F(o.cls = "ok" /\ same("c0", o.c0) /\ same("c1", o.c1) /\ same("c2", o.c2) /\ o.dd = st.dd /\ o.has1 = st.c1,
                     {"C13"} \cup (IF a.kind = "Drop" \/ (a.kind = "Write" /\ other) THEN {"C11"} ELSE {}), e, <<"open-handle-view", h, M.hs[a.h].st>>,
                     <<st.docs["c0"], st.docs["c1"], st.docs["c2"], st.dd, st.c1>>, <<o.cls, o.c0, o.c1, o.c2, o.dd, o.has1>>)
              [] hd.st = "open" /\ hd.stale ->
                   F(o.cls = "ok" /\ SeqToSet(o.c0) = N.store[hd.n][hd.u].docs["c0"] /\ SeqToSet(o.c2) = N.store[hd.n][hd.u].docs["c2"],
                     {"C13"} \cup (IF a.kind = "Write" /\ a.c = "c1" THEN {"C11"} ELSE {}), e, <<"open-handle-view", h, "stale">>,
                     <<N.store[hd.n][hd.u].docs["c0"], N.store[hd.n][hd.u].docs["c2"]>>, <<o.cls, o.c0, o.c2>>)
              [] hd.st = "closed" -> F(o.cls = "closed", {"C13"}, e, <<"closed-handle-usable", h>>, "closed", o.cls)
              [] OTHER -> 0
        \* registry
        \* (the registry's internal count is recorded for diagnosis only: the statements speak of what handles can do,
        \*  which the per-handle checks decide)
        fReg(n) == F(Registered(N, n) <=> n \in SeqToSet(e.names), {"C13"}, e,
                     <<"registry", n>>, <<Registered(N, n), N.reg[n].cnt>>, <<n \in SeqToSet(e.names), e.reg[n]>>)
        \* data on disk exists exactly for the stores the specification has
        fDir(n, u) == F(e.dirs[n \o "/" \o u] = N.store[n][u].exists, {"C13"}, e, <<"disk-data", n, u>>,
                        N.store[n][u].exists, e.dirs[n \o "/" \o u])
        \* feeds: exactly one event for every running feed on the written collection, none otherwise; done iff ended
        fFeed(f) ==
            LET o == e.fd[f]
                hd0 == M.hs[a.h]
                wantN == IF f \in recv THEN 1
                         ELSE IF a.kind = "StartFeed" /\ a.f = f /\ a.fk \in {"dump", "ckpt"} /\ hd0.st = "open"
                         THEN Cardinality(M.store[hd0.n][hd0.u].docs[a.c])    \* a dump / a resuming feed delivers the existing documents
                         ELSE 0 IN
            IF N.fd[f].loose \/ M.fd[f].loose THEN 0 ELSE
            F(o.n = wantN, {"C16", "C08"}, e,
              <<IF o.n < wantN THEN "feed-starved" ELSE "unexpected-callback", f, M.fd[f].st, M.fd[f].kind>>, wantN, o.n)
            + F(o.done = N.fd[f].done \/ f \in lag.done, {"C16"} \cup (IF a.kind \in {"Close", "CloseAndDelete"} THEN {"C20"} ELSE {}), e,
                <<IF o.done THEN "feed-ended-unexpectedly" ELSE "feed-not-ended", f, N.fd[f].kind, a.kind>>, N.fd[f].done, o.done)
        \* goroutines: one runner per collection of every running feed, nothing else
        wantGor == SumOver({f \in FeedIds : N.fd[f].st = "running"}, LAMBDA f : Cardinality(N.fd[f].colls))
        anyLoose == \E f \in FeedIds : N.fd[f].loose \/ M.fd[f].loose
        fGor == IF anyLoose THEN 0 ELSE F(e.gor - wantGor = lag.gor, {"C20", "C16"}, e, <<"feed-goroutines", a.kind>>, wantGor + lag.gor, e.gor)
    IN
    /\ M' = N
    /\ lag' = [done |-> {f \in FeedIds : e.fd[f].done # N.fd[f].done}, gor |-> e.gor - wantGor]
    /\ nfail' = nfail + fRes + SumOver(Handles, fHandle) + SumOver(Names, fReg)
                + SumOver(Names \X {"d1", "d2"}, LAMBDA p : fDir(p[1], p[2])) + SumOver(FeedIds, fFeed) + fGor

TNext ==
    /\ l <= Len(TraceLog)
    /\ l' = l + 1
    /\ LET e == TraceLog[l] IN
       IF e.k = "reset" THEN M' = Init0 /\ nfail' = nfail /\ lag' = [done |-> {}, gor |-> 0] ELSE Step(e)

TSpec == TInit /\ [][TNext]_tvars
Accepted == TLCGet("stats").diameter - 1 = Len(TraceLog)
=============================================================================
