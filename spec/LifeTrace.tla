------------------------------ MODULE LifeTrace ------------------------------
(***************************************************************************)
(* Trace validation of the lifecycle family: every recorded action of the  *)
(* real code (open / close / delete / write / drop / feed start & stop)    *)
(* with what every handle, every feed and the registry showed afterwards   *)
(* must be a step of RosmarLife (Apply / Expect / Receivers).              *)
(***************************************************************************)
EXTENDS RosmarLifeOps, IOUtils, FiniteSetsExt

TraceLog == ndJsonDeserialize(IOEnv.VERIF_TRACE)

VARIABLES l, M, nfail,
          lag   \* deviations of the asynchronous observations at the previous step, and those already reported
tvars == <<l, M, nfail, lag>>

SeqToSet(s) == {s[i] : i \in 1..Len(s)}
Fail(props, e, what, exp, got) == PrintT(<<"FAIL", props, e.tr, e.i, "life", e.act.kind, what, exp, got>>)
F(ok, props, e, what, exp, got) == IF ok THEN 0 ELSE IF Fail(props, e, what, exp, got) THEN 1 ELSE 1
SumOver(X, f(_)) == FoldSet(LAMBDA x, acc : acc + f(x), 0, X)

TInit == l = 1 /\ M = Init0 /\ nfail = 0 /\ lag = [n |-> [f \in FeedIds |-> 0], nRep |-> [f \in FeedIds |-> 0], done |-> {}, doneRep |-> {}, gor |-> 0, gorRep |-> 0]

Step(e) ==
    LET \* a write through a handle whose cached collection may be stale is unconstrained; if it succeeded it is a write
        a == [force |-> e.act.kind \in {"Write", "PutDDoc"} /\ e.res = "ok"] @@ e.act
        want == Expect(M, a)
        N0 == Apply(M, a)
        \* a handle whose cached collection object may be stale may or may not re-create collection c1: what it did is
        \* taken from what the acting handle then lists
        N == IF M.hs[a.h].st = "open" /\ M.hs[a.h].stale /\ a.kind \in {"StartFeed", "Write", "PutDDoc"} /\ e.hs[a.h].cls = "ok"
             THEN [N0 EXCEPT !.store[M.hs[a.h].n][M.hs[a.h].u].c1 = e.hs[a.h].has1]
             ELSE N0
        recv == Receivers(M, a)
        \* result of the call itself; a panic or a hang is never acceptable (C20)
        fRes == IF e.res \in {"panic", "hang"}
                THEN F(FALSE, {"C20"} \cup (IF a.kind \in {"StartFeed", "StopFeed"} THEN {"C16"} ELSE {"C13"}), e, <<"call", e.res>>, want, e.err)
                ELSE F(want = "any" \/ e.res = want \/ (want = "refused" /\ e.res \in {"exists", "otherurl"}),
                       IF a.kind \in {"StartFeed", "StopFeed"} THEN {"C16"} ELSE {"C13"}, e,
                       <<"result", M.hs[a.h].st, a.mode>>, want, e.res)
        \* every handle: open ones see exactly their store's documents, closed ones fail closed
        fHandle(h) ==
            LET hd == N.hs[h]
                o == e.hs[h] IN
            CASE o.cls = "skip" -> 0      \* not looked through yet (the behaviour has only opened it so far)
              [] hd.st = "open" /\ ~hd.stale /\ o.cls = "ok" /\ o.q # "ok" ->
                   \* a prepared query over a collection and the collection's KV API disagree about the documents that exist
                   F(FALSE, {"C19", "C11"}, e, <<"query-vs-kv", h, o.q>>, "ok", o.q)
              [] hd.st = "open" /\ ~hd.stale ->
                   LET st == N.store[hd.n][hd.u]
                       same(c, got) == SeqToSet(got) = st.docs[c]
                       \* a deviation in a collection other than the one the call addressed is (also) a breach of isolation
                       other == \/ (a.c # "c0" /\ ~same("c0", o.c0)) \/ (a.c # "c1" /\ ~same("c1", o.c1)) \/ (a.c # "c2" /\ ~same("c2", o.c2))
                                \/ (a.c # "c3" /\ ~same("c3", o.c3)) IN
                   F(o.cls = "ok" /\ same("c0", o.c0) /\ same("c1", o.c1) /\ same("c2", o.c2) /\ same("c3", o.c3) /\ o.dd = st.dd /\ o.has1 = st.c1,
                     {"C13"} \cup (IF a.kind = "Drop" \/ (a.kind = "Write" /\ other) THEN {"C11"} ELSE {}), e, <<"open-handle-view", h, M.hs[a.h].st>>,
                     <<st.docs["c0"], st.docs["c1"], st.docs["c2"], st.docs["c3"], st.dd, st.c1>>, <<o.cls, o.c0, o.c1, o.c2, o.c3, o.dd, o.has1>>)
              [] hd.st = "open" /\ hd.stale ->
                   F(o.cls = "ok" /\ SeqToSet(o.c0) = N.store[hd.n][hd.u].docs["c0"] /\ SeqToSet(o.c2) = N.store[hd.n][hd.u].docs["c2"],
                     {"C13"} \cup (IF a.kind = "Write" /\ a.c = "c1" THEN {"C11"} ELSE {}), e, <<"open-handle-view", h, "stale">>,
                     <<N.store[hd.n][hd.u].docs["c0"], N.store[hd.n][hd.u].docs["c2"]>>, <<o.cls, o.c0, o.c2>>)
              [] hd.st = "closed" -> F(o.cls = "closed", {"C13"}, e, <<"closed-handle-usable", h>>, "closed", o.cls)
              [] OTHER -> 0
        \* registry
        \* (the registry's internal count is recorded for diagnosis only: the statements speak of what handles can do,
        \*  which the per-handle checks decide)
        fReg(n) == F(Registered(N, n) <=> n \in SeqToSet(e.names), {"C13"}, e,
                     <<"registry", n>>, <<Registered(N, n), N.reg[n].cnt>>, <<n \in SeqToSet(e.names), e.reg[n]>>)
        \* data on disk exists exactly for the stores the specification has
        fDir(n, u) == F(e.dirs[n \o "/" \o u] = N.store[n][u].exists, {"C13"}, e, <<"disk-data", n, u>>,
                        N.store[n][u].exists, e.dirs[n \o "/" \o u])
        \* Feeds are asynchronous: an event, the closing of a done channel or the exit of a runner may be observed one
        \* step late when the machine is busy.  A deviation is therefore reported when it has *persisted* - it is the
        \* same at two consecutive observations (every behaviour ends with two extra observations after a pause) - and
        \* once.  Callbacks are compared cumulatively, so an event that is merely late cancels out; a lost, duplicated
        \* or spurious one does not.
        wantN(f) == LET hd0 == M.hs[a.h] IN
                    IF f \in recv THEN 1
                    ELSE IF a.kind = "StartFeed" /\ a.f = f /\ a.fk \in {"dump", "ckpt"} /\ hd0.st = "open"
                    THEN Cardinality(M.store[hd0.n][hd0.u].docs[a.c])    \* a dump / a resuming feed delivers the existing documents
                    ELSE IF a.kind = "StartFeed" /\ a.f = f /\ a.fk = "mdump" /\ hd0.st = "open"
                    THEN Cardinality(M.store[hd0.n][hd0.u].docs["c0"]) + Cardinality(M.store[hd0.n][hd0.u].docs["c1"])
                         + Cardinality(M.store[hd0.n][hd0.u].docs["c3"])
                    ELSE 0
        isLoose(f) == N.fd[f].loose \/ M.fd[f].loose
        nd == [f \in FeedIds |-> IF isLoose(f) THEN 0 ELSE lag.n[f] + e.fd[f].n - wantN(f)]      \* cumulative surplus of callbacks
        dd == {f \in FeedIds : ~isLoose(f) /\ e.fd[f].done # N.fd[f].done}
        \* goroutines: one runner per collection of every running feed, nothing else
        wantGor == SumOver({f \in FeedIds : N.fd[f].st = "running"}, LAMBDA f : Cardinality(N.fd[f].colls))
        anyLoose == \E f \in FeedIds : isLoose(f)
        gd == IF anyLoose THEN 0 ELSE e.gor - wantGor
        fFeed(f) ==
            \* (a checkpointed feed that is not told of a mutation moves its checkpoint past it with the next one: C15)
            F(~(nd[f] # 0 /\ nd[f] = lag.n[f] /\ nd[f] # lag.nRep[f]),
              IF nd[f] < 0 /\ (M.fd[f].kind = "ckpt" \/ N.fd[f].kind = "ckpt") THEN {"C16", "C08", "C15"} ELSE {"C16", "C08"}, e,
              <<IF nd[f] < 0 THEN "feed-starved" ELSE "unexpected-callback", f, M.fd[f].st, M.fd[f].kind>>, 0, nd[f])
            + F(~(f \in dd /\ f \in lag.done /\ f \notin lag.doneRep), {"C16", "C20"}, e,
                <<IF e.fd[f].done THEN "feed-ended-unexpectedly" ELSE "feed-not-ended", f, N.fd[f].kind>>, N.fd[f].done, e.fd[f].done)
        \* nothing is delivered after a feed's done channel has closed (C16)
        fAfter == SumOver(FeedIds, LAMBDA f : F(isLoose(f) \/ e.fd[f].after = 0, {"C16"}, e, <<"callback-after-done", f, N.fd[f].kind>>, 0, e.fd[f].after))
        fGor == F(~(gd # 0 /\ gd = lag.gor /\ gd # lag.gorRep), {"C20", "C16"}, e, <<"feed-goroutines">>, wantGor, e.gor)
    IN
    /\ M' = N
    /\ lag' = [n |-> nd,
               nRep |-> [f \in FeedIds |-> IF nd[f] = 0 THEN 0 ELSE IF nd[f] = lag.n[f] THEN nd[f] ELSE lag.nRep[f]],
               done |-> dd,
               doneRep |-> {f \in dd : f \in lag.done},
               gor |-> gd,
               gorRep |-> IF gd = 0 THEN 0 ELSE IF gd = lag.gor THEN gd ELSE lag.gorRep]
    /\ nfail' = nfail + fRes + SumOver(Handles, fHandle) + SumOver(Names, fReg)
                + SumOver(Names \X {"d1", "d2"}, LAMBDA p : fDir(p[1], p[2])) + SumOver(FeedIds, fFeed) + fAfter + fGor

Lag0 == [n |-> [f \in FeedIds |-> 0], nRep |-> [f \in FeedIds |-> 0], done |-> {}, doneRep |-> {}, gor |-> 0, gorRep |-> 0]

TNext ==
    /\ l <= Len(TraceLog)
    /\ l' = l + 1
    /\ LET e == TraceLog[l] IN
       IF e.k = "reset"
       THEN /\ M' = [Init0 EXCEPT !.store = [n \in Names |-> [u \in Urls |-> IF e.pre /\ u \notin MemUrls THEN [NoStore EXCEPT !.dir = TRUE] ELSE NoStore]]]
            /\ nfail' = nfail /\ lag' = Lag0
       ELSE Step(e)

TSpec == TInit /\ [][TNext]_tvars
Accepted == TLCGet("stats").diameter - 1 = Len(TraceLog)
=============================================================================
