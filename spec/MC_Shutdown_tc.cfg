SPECIFICATION Spec
CONSTANTS
  Procs = {"timer", "cad"}
  StopFirst = TRUE
VIEW View
INVARIANTS
  NoPanic
  NoLockLeft

