------------------------------- MODULE GenSeq -------------------------------
(***************************************************************************)
(* Behaviour generation for the sequential family (Leg B): under           *)
(* `tlc -simulate` every step applies one randomly chosen operation        *)
(* instance of RosmarSeq; when a behaviour reaches MaxOps calls its        *)
(* operation list is printed as JSON for the Go harness to execute.        *)
(* The random choices are bound to variables (rop, rc, rk, ra) so that     *)
(* each is drawn exactly once per step.                                    *)
(***************************************************************************)
EXTENDS RosmarSeq

VARIABLES hist, rop, rc, rk, ra
gvars == <<store, clock, nops, last, hist, rop, rc, rk, ra>>

Pick(S) == RandomElement(S)

GenNext ==
    /\ nops < MaxOps
    /\ rop' = Pick(OpSet)
    /\ rc' = Pick(IF Pick(1..10) <= 7 THEN {"c1"} ELSE Colls)
    /\ rk' = Pick(IF Pick(1..10) <= 7 THEN {"k1"} ELSE Keys)
    /\ ra' = Pick(ArgsFor(rop'))
    /\ Apply(rop', rc', rk', ra')
    /\ hist' = Append(hist, [op |-> rop', coll |-> rc', key |-> rk', exp |-> ra'.exp, pres |-> ra'.pres,
                             casc |-> ra'.casc, body |-> ra'.btok, opt |-> ra'.opt, sets |-> ra'.sets,
                             dels |-> {x \in XNames : ra'.dels[x]}, db |-> ra'.db, amt |-> ra'.amt,
                             def |-> ra'.def, path |-> ra'.path, val |-> ra'.val, newc |-> ra'.newc,
                             cb |-> ra'.cb, json |-> ra'.json, h |-> RandomElement({"", "", "h2"})])
    /\ (nops' < MaxOps \/ PrintT(<<"BEHAVIOUR", ToJson(hist')>>))
GenInit == Init /\ hist = <<>> /\ rop = "-" /\ rc = "-" /\ rk = "-" /\ ra = A0
GenSpec == GenInit /\ [][GenNext]_gvars
=============================================================================
