---- MODULE RosmarHLC_TTrace_1790999475 ----
EXTENDS RosmarHLC, Sequences, TLCExt, Toolbox, Naturals, TLC

_expression ==
    LET RosmarHLC_TEExpression == INSTANCE RosmarHLC_TEExpression
    IN RosmarHLC_TEExpression!expression
----

_trace ==
    LET RosmarHLC_TETrace == INSTANCE RosmarHLC_TETrace
    IN RosmarHLC_TETrace!trace
----

_inv ==
    ~(
        TLCGet("level") = Len(_TETrace)
        /\
        isopen = ([m |-> FALSE, d |-> TRUE])
        /\
        hist = (<<[b |-> "-", v |-> 2, kind |-> "clock"], [b |-> "d", v |-> 0, kind |-> "now"], [b |-> "-", v |-> 1, kind |-> "clock"], [b |-> "-", v |-> 0, kind |-> "restart"], [b |-> "d", v |-> 0, kind |-> "open"], [b |-> "d", v |-> 0, kind |-> "now"]>>)
        /\
        issuedEpoch = ({1})
        /\
        highest = (1)
        /\
        phys = (1)
        /\
        issuedBy = ([m |-> {}, d |-> {1, 2}])
        /\
        persisted = ([m |-> 0, d |-> 1])
        /\
        steps = (6)
    )
----

_init ==
    /\ issuedBy = _TETrace[1].issuedBy
    /\ steps = _TETrace[1].steps
    /\ issuedEpoch = _TETrace[1].issuedEpoch
    /\ persisted = _TETrace[1].persisted
    /\ hist = _TETrace[1].hist
    /\ phys = _TETrace[1].phys
    /\ isopen = _TETrace[1].isopen
    /\ highest = _TETrace[1].highest
----

_next ==
    /\ \E i,j \in DOMAIN _TETrace:
        /\ \/ /\ j = i + 1
              /\ i = TLCGet("level")
        /\ issuedBy  = _TETrace[i].issuedBy
        /\ issuedBy' = _TETrace[j].issuedBy
        /\ steps  = _TETrace[i].steps
        /\ steps' = _TETrace[j].steps
        /\ issuedEpoch  = _TETrace[i].issuedEpoch
        /\ issuedEpoch' = _TETrace[j].issuedEpoch
        /\ persisted  = _TETrace[i].persisted
        /\ persisted' = _TETrace[j].persisted
        /\ hist  = _TETrace[i].hist
        /\ hist' = _TETrace[j].hist
        /\ phys  = _TETrace[i].phys
        /\ phys' = _TETrace[j].phys
        /\ isopen  = _TETrace[i].isopen
        /\ isopen' = _TETrace[j].isopen
        /\ highest  = _TETrace[i].highest
        /\ highest' = _TETrace[j].highest

\* Uncomment the ASSUME below to write the states of the error trace
\* to the given file in Json format. Note that you can pass any tuple
\* to `JsonSerialize`. For example, a sub-sequence of _TETrace.
    \* ASSUME
    \*     LET J == INSTANCE Json
    \*         IN J!JsonSerialize("RosmarHLC_TTrace_1790999475.json", _TETrace)

=============================================================================

 Note that you can extract this module `RosmarHLC_TEExpression`
  to a dedicated file to reuse `expression` (the module in the 
  dedicated `RosmarHLC_TEExpression.tla` file takes precedence 
  over the module `RosmarHLC_TEExpression` below).

---- MODULE RosmarHLC_TEExpression ----
EXTENDS RosmarHLC, Sequences, TLCExt, Toolbox, Naturals, TLC

expression == 
    [
        \* To hide variables of the `RosmarHLC` spec from the error trace,
        \* remove the variables below.  The trace will be written in the order
        \* of the fields of this record.
        issuedBy |-> issuedBy
        ,steps |-> steps
        ,issuedEpoch |-> issuedEpoch
        ,persisted |-> persisted
        ,hist |-> hist
        ,phys |-> phys
        ,isopen |-> isopen
        ,highest |-> highest
        
        \* Put additional constant-, state-, and action-level expressions here:
        \* ,_stateNumber |-> _TEPosition
        \* ,_issuedByUnchanged |-> issuedBy = issuedBy'
        
        \* Format the `issuedBy` variable as Json value.
        \* ,_issuedByJson |->
        \*     LET J == INSTANCE Json
        \*     IN J!ToJson(issuedBy)
        
        \* Lastly, you may build expressions over arbitrary sets of states by
        \* leveraging the _TETrace operator.  For example, this is how to
        \* count the number of times a spec variable changed up to the current
        \* state in the trace.
        \* ,_issuedByModCount |->
        \*     LET F[s \in DOMAIN _TETrace] ==
        \*         IF s = 1 THEN 0
        \*         ELSE IF _TETrace[s].issuedBy # _TETrace[s-1].issuedBy
        \*             THEN 1 + F[s-1] ELSE F[s-1]
        \*     IN F[_TEPosition - 1]
    ]

=============================================================================



Parsing and semantic processing can take forever if the trace below is long.
 In this case, it is advised to uncomment the module below to deserialize the
 trace from a generated binary file.

\*
\*---- MODULE RosmarHLC_TETrace ----
\*EXTENDS RosmarHLC, IOUtils, TLC
\*
\*trace == IODeserialize("RosmarHLC_TTrace_1790999475.bin", TRUE)
\*
\*=============================================================================
\*

---- MODULE RosmarHLC_TETrace ----
EXTENDS RosmarHLC, TLC

trace == 
    <<
    ([isopen |-> [m |-> TRUE, d |-> TRUE],hist |-> <<>>,issuedEpoch |-> {},highest |-> 0,phys |-> 0,issuedBy |-> [m |-> {}, d |-> {}],persisted |-> [m |-> 0, d |-> 0],steps |-> 0]),
    ([isopen |-> [m |-> TRUE, d |-> TRUE],hist |-> <<[b |-> "-", v |-> 2, kind |-> "clock"]>>,issuedEpoch |-> {},highest |-> 0,phys |-> 2,issuedBy |-> [m |-> {}, d |-> {}],persisted |-> [m |-> 0, d |-> 0],steps |-> 1]),
    ([isopen |-> [m |-> TRUE, d |-> TRUE],hist |-> <<[b |-> "-", v |-> 2, kind |-> "clock"], [b |-> "d", v |-> 0, kind |-> "now"]>>,issuedEpoch |-> {2},highest |-> 2,phys |-> 2,issuedBy |-> [m |-> {}, d |-> {2}],persisted |-> [m |-> 0, d |-> 2],steps |-> 2]),
    ([isopen |-> [m |-> TRUE, d |-> TRUE],hist |-> <<[b |-> "-", v |-> 2, kind |-> "clock"], [b |-> "d", v |-> 0, kind |-> "now"], [b |-> "-", v |-> 1, kind |-> "clock"]>>,issuedEpoch |-> {2},highest |-> 2,phys |-> 1,issuedBy |-> [m |-> {}, d |-> {2}],persisted |-> [m |-> 0, d |-> 2],steps |-> 3]),
    ([isopen |-> [m |-> FALSE, d |-> FALSE],hist |-> <<[b |-> "-", v |-> 2, kind |-> "clock"], [b |-> "d", v |-> 0, kind |-> "now"], [b |-> "-", v |-> 1, kind |-> "clock"], [b |-> "-", v |-> 0, kind |-> "restart"]>>,issuedEpoch |-> {},highest |-> 0,phys |-> 1,issuedBy |-> [m |-> {}, d |-> {2}],persisted |-> [m |-> 0, d |-> 2],steps |-> 4]),
    ([isopen |-> [m |-> FALSE, d |-> TRUE],hist |-> <<[b |-> "-", v |-> 2, kind |-> "clock"], [b |-> "d", v |-> 0, kind |-> "now"], [b |-> "-", v |-> 1, kind |-> "clock"], [b |-> "-", v |-> 0, kind |-> "restart"], [b |-> "d", v |-> 0, kind |-> "open"]>>,issuedEpoch |-> {},highest |-> 0,phys |-> 1,issuedBy |-> [m |-> {}, d |-> {2}],persisted |-> [m |-> 0, d |-> 2],steps |-> 5]),
    ([isopen |-> [m |-> FALSE, d |-> TRUE],hist |-> <<[b |-> "-", v |-> 2, kind |-> "clock"], [b |-> "d", v |-> 0, kind |-> "now"], [b |-> "-", v |-> 1, kind |-> "clock"], [b |-> "-", v |-> 0, kind |-> "restart"], [b |-> "d", v |-> 0, kind |-> "open"], [b |-> "d", v |-> 0, kind |-> "now"]>>,issuedEpoch |-> {1},highest |-> 1,phys |-> 1,issuedBy |-> [m |-> {}, d |-> {1, 2}],persisted |-> [m |-> 0, d |-> 1],steps |-> 6])
    >>
----


=============================================================================

---- CONFIG RosmarHLC_TTrace_1790999475 ----
CONSTANTS
    Buckets = { "m" , "d" }
    K = 3
    MaxSteps = 8
    SeedOnOpen = FALSE

INVARIANT
    _inv

CHECK_DEADLOCK
    \* CHECK_DEADLOCK off because of PROPERTY or INVARIANT above.
    FALSE

INIT
    _init

NEXT
    _next

CONSTANT
    _TETrace <- _trace

ALIAS
    _expression
=============================================================================
\* Generated on Sat Oct 03 03:51:16 UTC 2026