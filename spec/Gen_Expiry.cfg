SPECIFICATION GenSpec
CONSTANTS
  MaxOps = 6
  MaxT = 0
  TouchArms = TRUE
CHECK_DEADLOCK FALSE
