package main

// View driver (C12): replays action lists generated from RosmarView - regular writes (documents the map function
// emits a row for, documents it skips, deletions), writes to another collection, writes with a caller-chosen CAS
// (at or below the collection's mark, between the collection's and the bucket's mark, ahead of the clock), purges,
// design-document replacements, and queries (non-stale and stale=ok) at the places the model chose.  The physical
// clock stands still, so a regular write gets its predecessor's CAS + 1 and "model CAS c" is "base + c".

import (
	"context"
	"encoding/json"
	"fmt"
	"os"
	"sort"

	sgbucket "github.com/couchbase/sg-bucket"
	"github.com/couchbaselabs/rosmar"
)

type ViewAct struct {
	A  string `json:"a"` // write | other | meta | purge | replace | query | staleok
	K  string `json:"k"`
	C  int64  `json:"c"`  // meta: the caller-chosen CAS, relative to the script's base
	Kd string `json:"kd"` // emit | skip | tomb
}
type ViewLine struct {
	Tr   int     `json:"tr"`
	I    int     `json:"i"`
	A    string  `json:"a"`
	K    string  `json:"k"`
	C    int64   `json:"c"`
	Kd   string  `json:"kd"`
	Res  string  `json:"res"`
	Cas  int64   `json:"cas"`  // the CAS the call gave the document, relative to the base
	Rows [][]any `json:"rows"` // query: [key, n, dv]
}

func viewDDocFor(dv int) *sgbucket.DesignDoc {
	fn := fmt.Sprintf(`function(doc, meta) { if (doc && doc.skip) return; if (doc && doc.n !== undefined) emit(meta.id, [doc.n, %d]); }`, dv)
	return &sgbucket.DesignDoc{Language: "javascript", Views: sgbucket.ViewMap{"v": sgbucket.ViewDef{Map: fn}}}
}

func runViewScript(trNo int, acts []ViewAct) ([]ViewLine, error) {
	ctx := context.Background()
	name := fmt.Sprintf("view_%d_%d", os.Getpid(), trNo)
	b, err := rosmar.OpenBucket(rosmar.InMemoryURL, name, rosmar.CreateNew)
	if err != nil {
		return nil, err
	}
	defer func() { _ = b.CloseAndDelete(ctx) }()
	dsA, err := b.NamedDataStore(dsName("c1"))
	if err != nil {
		return nil, err
	}
	ca := dsA.(*rosmar.Collection)
	co := b.DefaultDataStore().(*rosmar.Collection)
	dv := 0
	if err := ca.PutDDoc(ctx, "vd", viewDDocFor(dv)); err != nil {
		return nil, err
	}
	// the clock stands still from here on: every regular write is stamped with its predecessor's CAS + 1
	rosmar.VerifSetGlobalClock(func() uint64 { return 0 })
	defer rosmar.VerifSetGlobalClock(nil)
	base := int64(rosmar.VerifGlobalHLCHighest())
	lines := []ViewLine{{Tr: trNo, A: "reset", K: "-", Kd: "-", Res: "ok", Rows: [][]any{}}}
	nver := 0
	casOf := func(c *rosmar.Collection, k string) int64 {
		if _, cas, err := c.GetXattrs(ctx, k, []string{"$document"}); err == nil {
			return int64(cas) - base
		}
		return 0
	}
	for i, a := range acts {
		line := ViewLine{Tr: trNo, I: i + 1, A: a.A, K: a.K, C: a.C, Kd: a.Kd, Res: "ok", Rows: [][]any{}}
		var err error
		func() {
			defer func() {
				if p := recover(); p != nil {
					err = fmt.Errorf("panic: %v", p)
				}
			}()
			switch a.A {
			case "write":
				nver++
				switch a.Kd {
				case "emit":
					err = ca.Set(a.K, 0, nil, []byte(fmt.Sprintf(`{"n":%d}`, nver)))
				case "skip":
					err = ca.Set(a.K, 0, nil, []byte(fmt.Sprintf(`{"n":%d,"skip":true}`, nver)))
				case "tomb":
					err = ca.Delete(a.K)
				}
				line.Cas = casOf(ca, a.K)
			case "other":
				err = co.Set("o", 0, nil, []byte(`{"o":1}`))
				line.Cas = casOf(co, "o")
			case "meta":
				nver++
				var cur uint64
				if _, c0, gerr := ca.GetXattrs(ctx, a.K, []string{"$document"}); gerr == nil {
					cur = c0
				}
				newCas := uint64(base + a.C)
				if a.Kd == "tomb" {
					err = ca.DeleteWithMeta(ctx, a.K, cur, newCas, 0, nil)
				} else {
					err = ca.SetWithMeta(ctx, a.K, cur, newCas, 0, nil, []byte(fmt.Sprintf(`{"n":%d}`, nver)), sgbucket.FeedDataTypeJSON)
				}
				line.Cas = a.C
			case "purge":
				_, err = b.PurgeTombstones()
			case "replace":
				dv = 1 - dv
				err = ca.PutDDoc(ctx, "vd", viewDDocFor(dv))
			case "query", "staleok":
				params := map[string]any{}
				if a.A == "staleok" {
					params["stale"] = "ok"
				}
				var res sgbucket.ViewResult
				if res, err = ca.View(ctx, "vd", "v", params); err == nil {
					for _, r := range res.Rows {
						row := []any{r.ID, -1, -1}
						if v, ok := r.Value.([]any); ok && len(v) == 2 {
							row[1], row[2] = v[0], v[1]
						}
						line.Rows = append(line.Rows, row)
					}
					sort.Slice(line.Rows, func(x, y int) bool { return fmt.Sprint(line.Rows[x]) < fmt.Sprint(line.Rows[y]) })
				}
			}
		}()
		line.Res = classify(err)
		lines = append(lines, line)
	}
	return lines, nil
}

// cmdView: vh view -in scripts.json -out trace.ndjson [-from i -to j]   (sequential: the clock is process-global)
func cmdView(args []string) error {
	fs := newFlagSet("view")
	in := fs.String("in", "", "scripts JSON")
	out := fs.String("out", "", "trace ndjson")
	from := fs.Int("from", 0, "first script")
	to := fs.Int("to", -1, "one past the last script")
	if err := fs.Parse(args); err != nil {
		return err
	}
	data, err := os.ReadFile(*in)
	if err != nil {
		return err
	}
	var scripts [][]ViewAct
	if err := json.Unmarshal(data, &scripts); err != nil {
		return err
	}
	if *to < 0 || *to > len(scripts) {
		*to = len(scripts)
	}
	f, err := os.Create(*out)
	if err != nil {
		return err
	}
	defer f.Close()
	n, nerr := 0, 0
	for i := *from; i < *to; i++ {
		lines, err := runViewScript(i+1, scripts[i])
		if err != nil {
			fmt.Println("DRIVER-ERROR", err)
			nerr++
			continue
		}
		for _, l := range lines {
			js, _ := json.Marshal(l)
			f.Write(js)
			f.Write([]byte("\n"))
			n++
		}
	}
	fmt.Printf("VIEW scripts=%d lines=%d errors=%d\n", *to-*from, n, nerr)
	return nil
}
