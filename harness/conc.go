package main

// Concurrent driver: executes one "case" = a sequential setup, several processes (each a list of
// operations run by its own goroutine) and a schedule (sequence of process names produced by TLC
// from RosmarConc). The gate controller makes the real goroutines take exactly those steps.
// The recorded history is written in linearisation order (each operation at the step in which its
// transaction committed, or in which it finished if it never committed) for ConcTrace to validate.

import (
	"context"
	"encoding/json"
	"fmt"
	"os"
	"strings"
	"sync"
	"time"

	sgbucket "github.com/couchbase/sg-bucket"
	"github.com/couchbaselabs/rosmar"
)

type FeedSpec struct {
	Backfill string `json:"backfill"` // none | zero | resume
	Dump     bool   `json:"dump"`
	Ckpt     string `json:"ckpt"`
	KeysOnly bool   `json:"keysonly"`
}

type ConcProc struct {
	Name string  `json:"name"`
	Ops  []GenOp `json:"ops"`
}

type ConcCase struct {
	Name     string     `json:"name"`
	Mode     string     `json:"mode"`
	Setup    []GenOp    `json:"setup"`
	Procs    []ConcProc `json:"procs"`
	Schedule []string   `json:"schedule"`
	Gates    []string   `json:"gates"`
	FromBase bool       `json:"frombase"` // feeds begin at this case's start marker (backfill "zero" starts there, a checkpoint names it)
	Frozen   bool       `json:"frozen"` // the physical clock stands still: every CAS is its predecessor + 1
}

// FeedObs is what one feed run delivered.
type FeedObs struct {
	ID       string  `json:"id"`
	Run      int     `json:"run"`
	C        string  `json:"c"`
	Backfill string  `json:"backfill"`
	Dump     bool    `json:"dump"`
	Ckpt     string  `json:"ckpt"`
	OpLine   int     `json:"opline"`  // call lines emitted before StartDCPFeed was called
	BfLine   int     `json:"bfline"`  // call lines emitted before the backfill query finished
	RegLine  int     `json:"regline"` // call lines emitted before the feed was registered (-1: never)
	EndLine  int     `json:"endline"` // call lines emitted when the feed's done channel closed (-1: still running at quiescence)
	Evs      []Ev    `json:"evs"`
	Done     bool    `json:"done"`
	AfterEnd int     `json:"afterend"` // callbacks observed after the done channel closed
	Stopped  bool    `json:"stopped"`  // the terminator was closed by a StopFeed operation
	StopAt   int     `json:"stopat"`   // callbacks (of any kind) made when the terminator was closed
	Total    int     `json:"total"`    // callbacks made in all
	CkptCas  *CasRef `json:"ckptcas"`  // checkpoint document's last_seq after the run (0 = none)
}

type liveFeed struct {
	obs   *FeedObs
	mu    sync.Mutex
	raw   []sgbucket.FeedEvent
	term  chan bool
	done  chan struct{}
	ended bool
}

type concRunner struct {
	pendingStop map[string]*liveFeed // feeds whose terminator was closed and whose queue has not been seen closed yet
	env         *seqEnv
	ctl         *Controller
	tr          *Trace
	x           *Ctx
	suffix      string
	startCas    map[string]uint64
	fromBase    bool
	lines       []*SeqStep
	feeds       []*liveFeed
	byID        map[string]*liveFeed
	mu          sync.Mutex
}

type opRun struct {
	proc     string
	idx      int
	op       GenOp
	a        Args
	r        Res
	finished bool
	line     *SeqStep
	shown    []uint64 // CAS values the callback was shown
}

func (cr *concRunner) nLines() int { return len(cr.lines) }

// project takes the projection of all path keys; returns PostDoc list of changed docs.
func (cr *concRunner) project(prev map[string]string, info func(c, k string) *KeyInfo) []PostDoc {
	var out []PostDoc
	for _, c := range collNames {
		for _, k := range pathKeys {
			d, cur := cr.x.Observe(cr.env.colls[c], k+cr.suffix)
			ki := info(c, k+cr.suffix)
			if cur != ki.cur {
				if ki.cur != 0 {
					ki.older = append(ki.older, ki.cur)
				}
				ki.cur = cur
			}
			js, _ := jsonNoRank(d)
			if prev[c+"/"+k] != js {
				prev[c+"/"+k] = js
				out = append(out, PostDoc{C: c, K: k, D: d})
			}
		}
	}
	if out == nil {
		out = []PostDoc{}
	}
	return out
}

func (cr *concRunner) startFeed(id string, coll string, fs FeedSpec) error {
	lf := &liveFeed{term: make(chan bool), done: make(chan struct{})}
	cr.mu.Lock()
	run := 1
	for _, f := range cr.feeds {
		if f.obs.ID == id {
			run++
		}
	}
	lf.obs = &FeedObs{ID: id, Run: run, C: coll, Backfill: fs.Backfill, Dump: fs.Dump, Ckpt: fs.Ckpt,
		OpLine: cr.nLines(), BfLine: -1, RegLine: -1, EndLine: -1, Evs: []Ev{}}
	cr.feeds = append(cr.feeds, lf)
	cr.byID[id] = lf
	cr.mu.Unlock()
	args := sgbucket.FeedArguments{ID: id, Dump: fs.Dump, KeysOnly: fs.KeysOnly, Terminator: lf.term, DoneChan: lf.done,
		CheckpointPrefix: fs.Ckpt}
	switch fs.Backfill {
	case "none", "":
		args.Backfill = sgbucket.FeedNoBackfill
	case "zero":
		args.Backfill = 0
		if cr.fromBase {
			// the collection holds the documents of earlier cases: start right after this case's start marker
			args.Backfill = cr.startCas[coll] + 1
		}
	case "resume":
		args.Backfill = sgbucket.FeedResume
	}
	go func() {
		<-lf.done
		cr.mu.Lock()
		lf.ended = true
		lf.obs.Done = true
		lf.obs.EndLine = cr.nLines()
		cr.mu.Unlock()
	}()
	return cr.env.colls2[coll].StartDCPFeed(context.Background(), args, func(e sgbucket.FeedEvent) bool {
		lf.mu.Lock()
		lf.raw = append(lf.raw, e)
		lf.mu.Unlock()
		cr.mu.Lock()
		if lf.ended {
			lf.obs.AfterEnd++
		}
		cr.mu.Unlock()
		return true
	}, nil)
}

// runCase executes one case; returns its trace.
func runConcCase(env *seqEnv, trNo int, cc *ConcCase) (*Trace, error) {
	tr := &Trace{}
	if cc.Frozen {
		rosmar.VerifSetGlobalClock(func() uint64 { return 1 << 20 })
		defer rosmar.VerifSetGlobalClock(nil)
	}
	suffix := fmt.Sprintf(".q%d", trNo)
	absKey := absKeyFn(suffix)
	info := map[string]*KeyInfo{}
	var maxCas uint64
	known := func(c, k string) *KeyInfo {
		ki := info[c+"/"+k]
		if ki == nil {
			ki = &KeyInfo{}
			info[c+"/"+k] = ki
		}
		return ki
	}
	x := &Ctx{tr: tr, crc: newCrcTable(), exp: newExpTable(), known: known, maxCas: func() uint64 { return maxCas }}
	ctl := NewController()
	if len(cc.Gates) > 0 {
		ctl.enabled = map[string]bool{}
		for _, g := range cc.Gates {
			ctl.enabled[g] = true
		}
	} else {
		ctl.enabled = map[string]bool{"op.start": true, "post.before": true, "update.read.done": true,
			"subdoc.read.done": true, "wuwx.read.done": true, "feed.backfill.done": true, "feed.registered": true,
			"feed.deliver": true, "feed.term": true, "feed.exit": true}
	}
	cr := &concRunner{env: env, ctl: ctl, tr: tr, x: x, suffix: suffix, byID: map[string]*liveFeed{}, pendingStop: map[string]*liveFeed{}}
	startCas := map[string]uint64{}
	cr.startCas = startCas
	cr.fromBase = cc.FromBase
	startRefs := map[string]*CasRef{}
	for _, c := range collNames {
		cas, err := env.colls[c].WriteCas("~start"+strings.Replace(suffix, ".", "_", 1), 0, 0, []byte(`{"start":1}`), 0)
		if err != nil {
			return nil, fmt.Errorf("start marker: %w", err)
		}
		startCas[c] = cas
		startRefs[c] = tr.C(cas)
		maxCas = cas
	}
	reset := SeqStep{K: "reset", Tr: trNo, Mode: env.mode, Coll: "-", Op: "-", A: x.emptyArgs(), R: Res{Cls: "ok", Body: NoBody(), Cas: tr.C(0)},
		Post: []PostDoc{}, Live: []CollEvs{}, Dump: []CollEvs{}, Aux: []AuxObs{}, Start: startRefs, Skiplive: true, P: "-", Shown: []*CasRef{}, Dump2: []Dump2Obs{}, Mlive: []CollEvs{}, Klive: []CollEvs{}}
	tr.Add(&reset)
	prevDoc := map[string]string{}
	{
		t0 := &Trace{}
		x0 := &Ctx{tr: t0, crc: x.crc, exp: x.exp}
		js, _ := jsonNoRank(x0.absentObs())
		for _, c := range collNames {
			for _, k := range pathKeys {
				prevDoc[c+"/"+k] = js
			}
		}
	}
	emptyLive := func() []CollEvs {
		var l []CollEvs
		for _, c := range collNames {
			l = append(l, CollEvs{C: c, Evs: []Ev{}})
		}
		return l
	}
	emit := func(or *opRun) {
		st := &SeqStep{K: "call", Tr: trNo, I: len(cr.lines) + 1, Mode: env.mode, Coll: or.op.Coll, Op: or.op.Op, A: or.a, R: or.r,
			Live: emptyLive(), Dump: []CollEvs{}, Aux: []AuxObs{}, Start: startRefs, Skiplive: true, P: or.proc, Shown: []*CasRef{}, Dump2: []Dump2Obs{}, Mlive: []CollEvs{}, Klive: []CollEvs{}}
		st.Post = cr.project(prevDoc, known)
		for _, pd := range st.Post {
			if pd.D.Gx.Cas != nil && pd.D.Gx.Cas.raw > maxCas && pd.D.Gx.Cas.raw < maxCas+(1<<40) {
				maxCas = pd.D.Gx.Cas.raw
			}
		}
		or.line = st
		cr.mu.Lock()
		cr.lines = append(cr.lines, st)
		cr.mu.Unlock()
		tr.Add(st)
	}
	// sequential setup (ungated)
	for _, op := range cc.Setup {
		gop := op
		gop.Key = op.Key + suffix
		or := &opRun{proc: "setup", op: op}
		or.a, or.r = x.Exec(env.colls[op.Coll], env.h1, &gop)
		or.a.Key = op.Key
		or.finished = true
		emit(or)
	}
	x.snap = map[string]uint64{}
	for k, ki := range info {
		x.snap[k] = ki.cur
	}
	if cc.FromBase {
		// ... and a feed that resumes finds a checkpoint that names the start marker (written by the driver itself,
		// with a CAS of its own choosing, so that it is no step of the schedule and not part of any backfill)
		for _, p := range cc.Procs {
			for _, op := range p.Ops {
				if op.Op == "StartFeed" && op.F != nil && op.F.Backfill == "resume" && op.F.Ckpt != "" {
					c := env.colls[op.Coll]
					key := op.F.Ckpt + ":" + op.Key
					_, cur, _ := c.GetRaw(key)
					// the checkpoint names the CAS just below the first document this case has written
					base := maxCas
					for k, v := range x.snap {
						if strings.HasPrefix(k, op.Coll+"/") && v != 0 && v-1 < base {
							base = v - 1
						}
					}
					body := []byte(fmt.Sprintf(`{"last_seq":%d}`, base))
					if err := c.SetWithMeta(context.Background(), key, cur, uint64(1000+trNo), 0, nil, body, sgbucket.FeedDataTypeJSON); err != nil {
						return nil, fmt.Errorf("checkpoint preset: %w", err)
					}
				}
			}
		}
	}
	ctl.Install()
	defer ctl.Remove()
	// processes
	var curMu sync.Mutex
	cur := map[string]*opRun{}
	var all []*opRun
	for _, p := range cc.Procs {
		p := p
		ctl.Spawn(p.Name, func() {
			for i, op := range p.Ops {
				ctl.Gate("op.start", p.Name)
				or := &opRun{proc: p.Name, idx: i, op: op}
				curMu.Lock()
				cur[p.Name] = or
				all = append(all, or)
				curMu.Unlock()
				switch op.Op {
				case "StartFeed":
					fs := FeedSpec{}
					if op.F != nil {
						fs = *op.F
					}
					err := cr.startFeed(op.Key, op.Coll, fs)
					or.a = x.emptyArgs()
					or.r = Res{Cls: classify(err), Body: NoBody(), Cas: tr.C(0)}
				case "StopFeed":
					cr.mu.Lock()
					lf := cr.byID[op.Key]
					cr.mu.Unlock()
					if lf != nil {
						cr.mu.Lock()
						cr.pendingStop[op.Key] = lf
						cr.mu.Unlock()
						func() {
							defer func() { _ = recover() }()
							close(lf.term)
						}()
					}
					or.a = x.emptyArgs()
					or.r = Res{Cls: "ok", Body: NoBody(), Cas: tr.C(0)}
				default:
					gop := op
					gop.Key = op.Key + suffix
					coll := env.colls[op.Coll]
					if op.H == "h2" {
						coll = env.colls2[op.Coll]
					}
					xx := *x
					xx.onShown = func(cas uint64) {
						or.shown = append(or.shown, cas)
						ctl.Gate("cb", p.Name)
					}
					or.a, or.r = xx.Exec(coll, env.h1, &gop)
					or.a.Key = op.Key
				}
				curMu.Lock()
				or.finished = true
				curMu.Unlock()
			}
		})
		if _, _, ok := ctl.WaitParked(p.Name, ctl.Watchdog); !ok {
			return nil, fmt.Errorf("process %s did not reach its first gate", p.Name)
		}
	}
	recPos := 0
	afterStep := func() error {
		// which client operations committed or finished during this step?
		recs := ctl.Records()
		committed := map[string]bool{}
		for _, r := range recs[recPos:] {
			switch r.Site {
			case "txn.committed":
				committed[r.Proc] = true
			case "feed.backfill.done", "feed.registered":
				cr.mu.Lock()
				if lf := cr.byID[fmt.Sprint(r.Args[0])]; lf != nil {
					if r.Site == "feed.backfill.done" && lf.obs.BfLine < 0 {
						lf.obs.BfLine = cr.nLines()
					} else if r.Site == "feed.registered" && lf.obs.RegLine < 0 {
						lf.obs.RegLine = cr.nLines()
					}
				}
				cr.mu.Unlock()
			}
		}
		recPos = len(recs)
		curMu.Lock()
		var toEmit []*opRun
		for name, or := range cur {
			if or.line != nil || or.op.Op == "StartFeed" || or.op.Op == "StopFeed" {
				continue
			}
			if committed[name] || or.finished {
				toEmit = append(toEmit, or)
			}
		}
		curMu.Unlock()
		if len(toEmit) > 1 {
			return errOverlap
		}
		for _, or := range toEmit {
			emit(or)
		}
		// the projection is only the state "after this commit" if nothing else committed while it was taken
		// (a process that was blocked on a lock may have resumed concurrently): otherwise the case is dropped
		if len(toEmit) > 0 {
			later := ctl.Records()
			for _, r := range later[recPos:] {
				if r.Site == "txn.committed" && r.Proc != "" && r.Proc != toEmit[0].proc && !isBackground(r.Proc) {
					return errOverlap
				}
			}
			recPos = len(later)
		}
		return nil
	}
	if err := afterStep(); err != nil {
		return nil, err
	}
	stepProc := func(name string) error {
		if isBackground(name) {
			// a background goroutine woken by the previous step may not have reached its gate yet
			ctl.WaitParked(name, 40*time.Millisecond)
		}
		if _, done, known := ctl.State(name); !known || done {
			return nil
		}
		if site, _, _ := ctl.State(name); site == "" {
			return nil
		}
		t0 := time.Now()
		site, done, ok := ctl.Step(name)
		if os.Getenv("VERIF_DEBUG") != "" {
			fmt.Fprintf(os.Stderr, "step %s -> site=%q done=%v ok=%v (%s)\n", name, site, done, ok, time.Since(t0))
		}
		if !ok {
			return fmt.Errorf("process %s blocked (watchdog) after release", name)
		}
		// a closed terminator takes effect when the feed's terminator goroutine has closed the queue: let it
		cr.mu.Lock()
		pend := map[string]*liveFeed{}
		for id, lf := range cr.pendingStop {
			pend[id] = lf
			delete(cr.pendingStop, id)
		}
		cr.mu.Unlock()
		for id, lf := range pend {
			if _, _, ok := ctl.WaitParked("term:"+id, 100*time.Millisecond); ok {
				ctl.Step("term:" + id)
			}
			lf.mu.Lock()
			n := len(lf.raw)
			lf.mu.Unlock()
			cr.mu.Lock()
			lf.obs.Stopped = true
			lf.obs.StopAt = n
			cr.mu.Unlock()
		}
		return afterStep()
	}
	for _, name := range cc.Schedule {
		if err := stepProc(name); err != nil {
			return nil, err
		}
	}
	// run everything that is left, one process at a time (deterministic order)
	endDeadline := time.Now().Add(ctl.Watchdog)
	for round := 0; round < 10000; round++ {
		ps := ctl.Parked()
		if len(ps) == 0 {
			// allow background goroutines a moment to show up, and blocked clients to resume
			time.Sleep(2 * time.Millisecond)
			ps = ctl.Parked()
			if len(ps) == 0 {
				allDone := true
				for _, p := range cc.Procs {
					if _, done, _ := ctl.State(p.Name); !done {
						allDone = false
					}
				}
				if allDone {
					break
				}
				if time.Now().After(endDeadline) {
					return nil, fmt.Errorf("processes neither parked nor finished within the watchdog (deadlock?)")
				}
				if err := afterStep(); err != nil {
					return nil, err
				}
				continue
			}
		}
		sortStrings(ps)
		if err := stepProc(ps[0]); err != nil {
			return nil, err
		}
	}
	// patch results of operations whose line was emitted at commit time
	for _, or := range all {
		if or.line != nil {
			or.line.R = or.r
			or.line.A = or.a
			for _, s := range or.shown {
				or.line.Shown = append(or.line.Shown, tr.C(s))
			}
		}
	}
	// quiescence: give running feeds time to deliver, then stop them ungated
	ctl.FreeRun()
	time.Sleep(5 * time.Millisecond)
	ctl.ReleaseParked()
	cr.mu.Lock()
	feeds := append([]*liveFeed{}, cr.feeds...)
	cr.mu.Unlock()
	// flush live feeds with a marker so that everything posted has been delivered
	env.markers++
	mval := fmt.Sprintf(`{"m":"q%d"}`, env.markers)
	for _, c := range collNames {
		_ = env.colls[c].SetRaw("~mark", 0, nil, []byte(mval))
	}
	deadline := time.Now().Add(5 * time.Second)
	for _, lf := range feeds {
		for time.Now().Before(deadline) {
			cr.mu.Lock()
			ended := lf.ended
			cr.mu.Unlock()
			lf.mu.Lock()
			seen := false
			for _, e := range lf.raw {
				if string(e.Key) == "~mark" && strings.Contains(string(e.Value), mval) {
					seen = true
				}
			}
			lf.mu.Unlock()
			if seen || ended || lf.obs.RegLine < 0 {
				break
			}
			ctl.ReleaseParked()
			time.Sleep(time.Millisecond)
		}
	}
	if os.Getenv("VERIF_DEBUG") == "2" {
		for _, r := range ctl.Records() {
			fmt.Fprintf(os.Stderr, "rec %d %s %s %v\n", r.Stamp, r.Proc, r.Site, r.Args)
		}
	}
	var fobs []FeedObs
	for _, lf := range feeds {
		cr.mu.Lock()
		o := *lf.obs
		cr.mu.Unlock()
		lf.mu.Lock()
		o.Total = len(lf.raw)
		for j := range lf.raw {
			k := string(lf.raw[j].Key)
			if strings.HasPrefix(k, "~") || (k != "" && !strings.HasSuffix(k, suffix)) {
				continue
			}
			o.Evs = append(o.Evs, x.absEvent(&lf.raw[j], absKey))
		}
		lf.mu.Unlock()
		o.CkptCas = tr.C(0)
		if o.Ckpt != "" {
			var cp struct {
				LastSeq uint64 `json:"last_seq"`
			}
			if _, err := env.colls[o.C].Get(o.Ckpt+":"+o.ID, &cp); err == nil {
				o.CkptCas = tr.C(cp.LastSeq)
			}
		}
		fobs = append(fobs, o)
	}
	if fobs == nil {
		fobs = []FeedObs{}
	}
	tr.Add(&FeedsLine{K: "feeds", Tr: trNo, Mode: env.mode, Feeds: fobs, NLines: cr.nLines()})
	// stop feeds
	for _, lf := range feeds {
		func() {
			defer func() { _ = recover() }()
			close(lf.term)
		}()
	}
	for _, lf := range feeds {
		if lf.obs.RegLine >= 0 || lf.obs.Dump {
			stopDeadline := time.After(3 * time.Second)
		wait:
			for {
				select {
				case <-lf.done:
					break wait
				case <-stopDeadline:
					break wait
				case <-time.After(2 * time.Millisecond):
					ctl.ReleaseParked()
				}
			}
		}
	}
	return tr, nil
}

var errOverlap = fmt.Errorf("two operations completed in one step (a blocked process resumed); case skipped")

type FeedsLine struct {
	K      string    `json:"k"`
	Tr     int       `json:"tr"`
	Mode   string    `json:"mode"`
	Feeds  []FeedObs `json:"feeds"`
	NLines int       `json:"nlines"`
}

func sortStrings(s []string) {
	for i := 1; i < len(s); i++ {
		for j := i; j > 0 && s[j] < s[j-1]; j-- {
			s[j], s[j-1] = s[j-1], s[j]
		}
	}
}

// cmdConc: vh conc -in cases.json -out trace.ndjson -mode mem|disk|both
func cmdConc(args []string) error {
	fs := newFlagSet("conc")
	in := fs.String("in", "", "cases JSON (array of ConcCase)")
	out := fs.String("out", "", "trace ndjson")
	mode := fs.String("mode", "mem", "mem | disk | both")
	scratch := fs.String("scratch", "", "scratch dir for on-disk buckets")
	perEnv := fs.Int("perenv", 100, "cases per bucket")
	if err := fs.Parse(args); err != nil {
		return err
	}
	data, err := os.ReadFile(*in)
	if err != nil {
		return err
	}
	var cases []ConcCase
	if err := json.Unmarshal(data, &cases); err != nil {
		return err
	}
	tw, err := NewTraceWriter(*out)
	if err != nil {
		return err
	}
	defer tw.Close()
	defer func() { _ = WriteBodyTable(*out + ".bodies.json") }()
	modes := []string{*mode}
	if *mode == "both" {
		modes = []string{"mem", "disk"}
	}
	no := 0
	skipped := 0
	var errs []string
	// the hook is process-global, so cases run one after another
	for _, m := range modes {
		var env *seqEnv
		count := 0
		for i := range cases {
			no++
			if env == nil || count >= *perEnv {
				if env != nil {
					env.close()
				}
				if env, err = newSeqEnv(m, *scratch); err != nil {
					return err
				}
				count = 0
			}
			count++
			tr, err := runConcCase(env, no, &cases[i])
			if err == errOverlap {
				skipped++
				rosmar.VerifSetHook(nil)
				env = nil
				continue
			}
			if err != nil {
				errs = append(errs, fmt.Sprintf("case %d (%s, %s): %v", no, cases[i].Name, m, err))
				rosmar.VerifSetHook(nil)
				env = nil // the bucket may be wedged; abandon it
				continue
			}
			if err := tw.Flush(tr); err != nil {
				return err
			}
		}
		if env != nil {
			env.close()
		}
	}
	fmt.Printf("CONC cases=%d lines=%d errors=%d skipped=%d\n", no, tw.n, len(errs), skipped)
	for i, e := range errs {
		if i < 10 {
			fmt.Println("DRIVER-ERROR", e)
		}
	}
	return nil
}
