package main

// Sequential driver: executes generated operation sequences ("paths") on the real code and
// records, after every step, the full projection of the path's keys in every collection.

import (
	"context"
	"encoding/json"
	"fmt"
	"os"
	"path/filepath"
	"strings"
	"sync"
	"sync/atomic"
	"time"

	sgbucket "github.com/couchbase/sg-bucket"
	"github.com/couchbaselabs/rosmar"
)

var collNames = []string{"c0", "c1", "c2"}
var pathKeys = []string{"k1", "k2"}

type seqEnv struct {
	mode    string
	dir     string
	name    string
	h1, h2  *rosmar.Bucket
	colls   map[string]*rosmar.Collection // via h1
	colls2  map[string]*rosmar.Collection // via h2
	feeds   map[string]*feedBuf
	multi   *feedBuf            // one bucket-level feed over all three collections
	kfeeds  map[string]*feedBuf // keys-only feeds, registered before the full feeds
	markers int
	vdef    map[string]string // design-document variant installed per collection
}

var envSerial int32

func dsName(c string) sgbucket.DataStoreName {
	switch c {
	case "c0":
		return sgbucket.DataStoreNameImpl{Scope: "_default", Collection: "_default"}
	case "c1":
		return sgbucket.DataStoreNameImpl{Scope: "s", Collection: "c1"}
	case "c2":
		return sgbucket.DataStoreNameImpl{Scope: "s", Collection: "c2"}
	}
	panic("bad collection " + c)
}

func newSeqEnv(mode, scratch string) (*seqEnv, error) {
	n := atomic.AddInt32(&envSerial, 1)
	e := &seqEnv{mode: mode, name: fmt.Sprintf("vb%d_%d", os.Getpid(), n), colls: map[string]*rosmar.Collection{},
		colls2: map[string]*rosmar.Collection{}, feeds: map[string]*feedBuf{}}
	url := rosmar.InMemoryURL
	if mode == "disk" {
		e.dir = filepath.Join(scratch, e.name)
		url = "rosmar://" + e.dir
	}
	var err error
	if e.h1, err = rosmar.OpenBucket(url, e.name, rosmar.CreateNew); err != nil {
		return nil, err
	}
	if e.h2, err = rosmar.OpenBucket(url, e.name, rosmar.CreateOrOpen); err != nil {
		return nil, err
	}
	for _, c := range collNames {
		ds, err := e.h1.NamedDataStore(dsName(c))
		if err != nil {
			return nil, err
		}
		e.colls[c] = ds.(*rosmar.Collection)
		ds2, err := e.h2.NamedDataStore(dsName(c))
		if err != nil {
			return nil, err
		}
		e.colls2[c] = ds2.(*rosmar.Collection)
	}
	for _, c := range collNames {
		if err := e.colls[c].PutDDoc(context.Background(), "vd", viewDDoc()); err != nil {
			return nil, err
		}
		// a second design document whose view is queried only now and then, so that its index is brought up to
		// date over several writes at once
		if err := e.colls[c].PutDDoc(context.Background(), "ld", viewDDoc()); err != nil {
			return nil, err
		}
		if err := e.colls[c].PutDDoc(context.Background(), "pd", viewDDoc()); err != nil {
			return nil, err
		}
	}
	e.kfeeds = map[string]*feedBuf{}
	for _, c := range collNames {
		kb := newFeedBuf()
		e.kfeeds[c] = kb
		kargs := sgbucket.FeedArguments{ID: "live-keys-" + c, Backfill: sgbucket.FeedNoBackfill, KeysOnly: true, Terminator: kb.term, DoneChan: kb.done}
		if err := e.colls2[c].StartDCPFeed(context.Background(), kargs, kb.callback, nil); err != nil {
			return nil, err
		}
	}
	for _, c := range collNames {
		fb := newFeedBuf()
		e.feeds[c] = fb
		args := sgbucket.FeedArguments{ID: "live-" + c, Backfill: sgbucket.FeedNoBackfill, Terminator: fb.term, DoneChan: fb.done}
		if err := e.colls2[c].StartDCPFeed(context.Background(), args, fb.callback, nil); err != nil {
			return nil, err
		}
	}
	// a bucket-level feed over all collections, started through the first handle
	e.multi = newFeedBuf()
	margs := sgbucket.FeedArguments{ID: "live-multi", Backfill: sgbucket.FeedNoBackfill, Terminator: e.multi.term, DoneChan: e.multi.done,
		Scopes: map[string][]string{"_default": {"_default"}, "s": {"c1", "c2"}}}
	if err := e.h1.StartDCPFeed(context.Background(), margs, e.multi.callback, nil); err != nil {
		return nil, err
	}
	return e, nil
}

func (e *seqEnv) close() {
	if e.multi != nil {
		close(e.multi.term)
	}
	for _, f := range e.kfeeds {
		close(f.term)
	}
	for _, f := range e.feeds {
		close(f.term)
	}
	for _, f := range e.feeds {
		select {
		case <-f.done:
		case <-time.After(5 * time.Second):
		}
	}
	func() {
		defer func() { _ = recover() }()
		e.h2.Close(context.Background())
		_ = e.h1.CloseAndDelete(context.Background())
	}()
	if e.dir != "" {
		os.RemoveAll(e.dir)
	}
}

// SeqStep is one trace line of the sequential family.
type SeqStep struct {
	K        string             `json:"k"` // reset | call
	Tr       int                `json:"tr"`
	I        int                `json:"i"`
	Mode     string             `json:"mode"`
	Coll     string             `json:"coll"`
	Op       string             `json:"op"`
	A        Args               `json:"a"`
	R        Res                `json:"r"`
	Post     []PostDoc          `json:"post"`     // documents whose observation changed since the previous line
	Live     []CollEvs          `json:"live"`     // per collection: events delivered by the running feed since the previous line
	Mlive    []CollEvs          `json:"mlive"`    // the same, as delivered by the bucket-level feed over all collections (split by CollectionID)
	Klive    []CollEvs          `json:"klive"`    // events of the keys-only feeds (key, opcode, CAS, revision, expiry only)
	Dump     []CollEvs          `json:"dump"`     // per collection whose backfill changed: Dump feed from the path's start CAS
	Aux      []AuxObs           `json:"aux"`      // other observers (query, views) that changed
	Start    map[string]*CasRef `json:"start"`    // reset lines: backfill start CAS per collection
	Dump2    []Dump2Obs         `json:"dump2"`    // backfill of the target collection from the highest CAS one of its documents has
	Skiplive bool               `json:"skiplive"` // concurrent traces: feed deliveries are checked on the "feeds" line instead
	P        string             `json:"p"`        // process that made the call
	Shown    []*CasRef          `json:"shown"`    // CAS of the versions an Update-style callback was shown
}
type Dump2Obs struct {
	C     string  `json:"c"`
	Start *CasRef `json:"start"`
	Evs   []Ev    `json:"evs"`
}
type PostDoc struct {
	C string `json:"c"`
	K string `json:"key"`
	D DocObs `json:"d"`
}
type CollEvs struct {
	C   string `json:"c"`
	Evs []Ev   `json:"evs"`
}

type seqRunner struct {
	env       *seqEnv
	tw        *TraceWriter
	errs      *[]string
	aux       bool
	lastMulti []CollEvs
	lastKeys  []CollEvs
}

func absKeyFn(suffix string) func(string) string {
	return func(k string) string { return strings.TrimSuffix(k, suffix) }
}

// runPath executes one path on fresh keys and writes its trace.
func (sr *seqRunner) runPath(trNo int, ops []GenOp) error {
	env := sr.env
	tr := &Trace{}
	suffix := fmt.Sprintf(".p%d", trNo)
	absKey := absKeyFn(suffix)
	info := map[string]*KeyInfo{}
	var maxCas uint64
	x := &Ctx{tr: tr, crc: newCrcTable(), exp: newExpTable(),
		known: func(c, k string) *KeyInfo {
			ki := info[c+"/"+k]
			if ki == nil {
				ki = &KeyInfo{}
				info[c+"/"+k] = ki
			}
			return ki
		},
		maxCas: func() uint64 { return maxCas }}
	x.topMark = func() uint64 {
		// the flush markers are written to the collections in order: the last collection holds the newest CAS
		_, cas, err := env.colls[collNames[len(collNames)-1]].GetRaw("~mark")
		if err != nil {
			return 0
		}
		return cas
	}
	if env.vdef == nil {
		env.vdef = map[string]string{}
	}
	x.swapDDoc = func(coll, h string) error {
		nv := "B"
		if env.vdef[coll] == "B" {
			nv = "A"
		}
		env.vdef[coll] = nv
		// (the views are always queried through the first handle; the replacement may come through the second)
		c := env.colls[coll]
		if h == "h2" {
			c = env.colls2[coll]
		}
		return c.PutDDoc(context.Background(), "vd", viewDDocVariant(nv))
	}
	// every path starts with variant A of the design document
	for _, c := range collNames {
		if env.vdef[c] == "B" {
			if err := env.colls[c].PutDDoc(context.Background(), "vd", viewDDocVariant("A")); err != nil {
				return err
			}
			env.vdef[c] = "A"
		}
	}
	// path start marker: its CAS is the backfill start of all dumps of this path
	startCas := map[string]uint64{}
	for _, c := range collNames {
		cas, err := env.colls[c].WriteCas("~start"+strings.Replace(suffix, ".", "_", 1), 0, 0, []byte(`{"start":1}`), 0)
		if err != nil {
			return fmt.Errorf("start marker: %w", err)
		}
		startCas[c] = cas
		if cas > maxCas {
			maxCas = cas
		}
	}
	if err := sr.sync(); err != nil {
		return err
	}
	for _, f := range env.feeds {
		f.mu.Lock()
		f.evs = nil
		f.mu.Unlock()
	}
	startRefs := map[string]*CasRef{}
	for _, c := range collNames {
		startRefs[c] = tr.C(startCas[c])
	}
	tr.Add(SeqStep{K: "reset", Tr: trNo, Mode: env.mode, Coll: "-", Op: "-", A: x.emptyArgs(), R: Res{Cls: "ok", Body: NoBody(), Cas: tr.C(0)},
		Post: []PostDoc{}, Live: []CollEvs{}, Dump: []CollEvs{}, Aux: []AuxObs{}, Start: startRefs, P: "-", Shown: []*CasRef{}, Dump2: []Dump2Obs{}, Mlive: []CollEvs{}, Klive: []CollEvs{}})
	prevDoc := map[string]string{}
	{
		// fresh keys: the trace specification starts every path from "all absent"; only deviations are logged
		t0 := &Trace{}
		x0 := &Ctx{tr: t0, crc: x.crc, exp: x.exp}
		js, _ := jsonNoRank(x0.absentObs())
		for _, c := range collNames {
			for _, k := range pathKeys {
				prevDoc[c+"/"+k] = js
			}
		}
	}
	prevDump := map[string]string{}
	prevAux := map[string]string{}
	for i, op := range ops {
		op := op
		realKey := op.Key + suffix
		gop := op
		gop.Key = realKey
		coll := env.colls[op.Coll]
		if op.H == "h2" {
			coll = env.colls2[op.Coll]
		}
		a, r := x.Exec(coll, env.h1, &gop)
		a.Key = op.Key
		step := SeqStep{K: "call", Tr: trNo, I: i + 1, Mode: env.mode, Coll: op.Coll, Op: op.Op, A: a, R: r,
			Post: []PostDoc{}, Live: []CollEvs{}, Dump: []CollEvs{}, Aux: []AuxObs{}, Start: startRefs, P: "-", Shown: []*CasRef{}, Dump2: []Dump2Obs{}, Mlive: []CollEvs{}, Klive: []CollEvs{}}
		if r.Cas != nil && r.Cas.raw > maxCas && r.Cls == "ok" && op.Op != "SetWithMeta" && op.Op != "DeleteWithMeta" {
			maxCas = r.Cas.raw
		}
		if sr.aux {
			// (before the feeds are flushed: the flush markers are writes of their own, and a view that has just been
			// brought up to date over a marker no longer shows what it made of the operation itself)
			// SQL queries and views of the target collection (a freshly built view at the end of the path)
			for _, ao := range sr.observeAux(x, op.Coll, suffix) {
				js, _ := jsonNoRank(ao)
				if prev, ok := prevAux[ao.C+"/"+ao.Kind]; !ok || prev != js || ao.Kind == "viewfresh" || ao.Kind == "viewlate" {
					prevAux[ao.C+"/"+ao.Kind] = js
					step.Aux = append(step.Aux, ao)
				}
			}
		}
		// live events: flush every feed with a marker write
		lives, err := sr.collectLive(x, absKey, suffix)
		if err != nil {
			return fmt.Errorf("trace %d step %d (%s): %w", trNo, i+1, op.Op, err)
		}
		step.Live = lives
		if sr.aux {
			// views queried after the flush (always recorded: the trace spec checks them where they appear)
			step.Aux = append(step.Aux, sr.observePost(x, op.Coll, suffix, i == len(ops)-1, i%3 == 2 || i == len(ops)-1)...)
		}
		step.Mlive = sr.lastMulti
		step.Klive = sr.lastKeys
		// projection of every path key in every collection
		for _, c := range collNames {
			for _, k := range pathKeys {
				var d DocObs
				var cur uint64
				func() {
					defer func() {
						if p := recover(); p != nil {
							d = DocObs{}
							d.Raw.Cls = "panic"
						}
					}()
					d, cur = x.Observe(env.colls[c], k+suffix)
				}()
				ki := x.known(c, k+suffix)
				if cur != ki.cur {
					if ki.cur != 0 {
						ki.older = append(ki.older, ki.cur)
					}
					ki.cur = cur
				}
				if cur > maxCas && !x.foreign[cur] {
					maxCas = cur
				}
				js, _ := jsonNoRank(d)
				if prevDoc[c+"/"+k] != js {
					prevDoc[c+"/"+k] = js
					step.Post = append(step.Post, PostDoc{C: c, K: k, D: d})
				}
			}
		}
		// backfill from the path's start
		for _, c := range collNames {
			evs, err := dumpFeed(env.colls2[c], startCas[c], false)
			if err != nil {
				return fmt.Errorf("trace %d step %d dump: %w", trNo, i+1, err)
			}
			var out []Ev
			for j := range evs {
				k := string(evs[j].Key)
				if strings.HasPrefix(k, "~") {
					continue
				}
				if evs[j].Opcode == sgbucket.FeedOpBeginBackfill || evs[j].Opcode == sgbucket.FeedOpEndBackfill || strings.HasSuffix(k, suffix) {
					out = append(out, x.absEvent(&evs[j], absKey))
				}
			}
			js, _ := jsonNoRank(out)
			if prevDump[c] != js {
				prevDump[c] = js
				if out == nil {
					out = []Ev{}
				}
				step.Dump = append(step.Dump, CollEvs{C: c, Evs: out})
			}
		}
		// a second backfill of the target collection, starting at the highest CAS one of its documents has
		{
			c := op.Coll
			var top uint64
			for _, k := range pathKeys {
				if ki := x.known(c, k+suffix); ki.cur > top {
					top = ki.cur
				}
			}
			if top != 0 {
				// (this feed keeps a checkpoint, one per path: from the second step on a checkpoint of an earlier run exists,
				// at or above the start whenever the step changed nothing)
				evs, err := dumpFeedCkpt(env.colls2[c], top, false, "~cp"+strings.Replace(suffix, ".", "_", 1))
				if err != nil {
					return fmt.Errorf("trace %d step %d dump2: %w", trNo, i+1, err)
				}
				out := []Ev{}
				for j := range evs {
					k := string(evs[j].Key)
					if strings.HasPrefix(k, "~") {
						continue
					}
					if evs[j].Opcode == sgbucket.FeedOpBeginBackfill || evs[j].Opcode == sgbucket.FeedOpEndBackfill || strings.HasSuffix(k, suffix) {
						out = append(out, x.absEvent(&evs[j], absKey))
					}
				}
				step.Dump2 = append(step.Dump2, Dump2Obs{C: c, Start: tr.C(top), Evs: out})
			}
		}
		tr.Add(step)
	}
	return sr.tw.Flush(tr)
}

// jsonNoRank serialises for change detection (CAS values appear as provisional per-trace ids).
func jsonNoRank(v any) (string, error) {
	b, err := json.Marshal(v)
	return string(b), err
}

// absentObs is the observation of a key that has never been written.
func (x *Ctx) absentObs() DocObs {
	return DocObs{Raw: RawObs{Cls: "missing", Body: NoBody(), Cas: x.tr.C(0)}, Ex: false, Exp: ExpObs{Cls: "missing", Exp: "0"},
		Gwx: GwxObs{Cls: "missing", Body: NoBody(), Xa: x.absXattrs(nil), Cas: x.tr.C(0)},
		Gx:  GxObs{Cls: "missing", Xa: x.absXattrs(nil), Cas: x.tr.C(0), Crc: NoMacro()}}
}

func (x *Ctx) emptyArgs() Args {
	a := Args{Key: "-", Exp: "0", Casc: "zero", Cas: x.tr.C(0), Body: NoBody(), Sets: fullSets(nil), Dels: map[string]bool{},
		Path: "-", NewCas: x.tr.C(0)}
	for _, n := range XNames {
		a.Dels[n] = false
	}
	return a
}

// sync writes a marker into every collection and waits until every live feed has delivered it.
func (sr *seqRunner) sync() error {
	_, err := sr.flushFeeds()
	return err
}

func (sr *seqRunner) flushFeeds() (map[string][]sgbucket.FeedEvent, error) {
	env := sr.env
	env.markers++
	val := []byte(fmt.Sprintf(`{"m":"m%d"}`, env.markers))
	out := map[string][]sgbucket.FeedEvent{}
	for _, c := range collNames {
		if err := env.colls[c].SetRaw("~mark", 0, nil, val); err != nil {
			return nil, fmt.Errorf("marker write: %w", err)
		}
	}
	for _, c := range collNames {
		evs, err := env.feeds[c].drainUntil("~mark", val, 10*time.Second)
		if err != nil {
			return nil, fmt.Errorf("collection %s: %w", c, err)
		}
		out[c] = evs
	}
	for _, c := range collNames {
		if kb := env.kfeeds[c]; kb != nil {
			evs, err := kb.drainUntilKey("~mark", 10*time.Second, env.markers)
			if err != nil {
				return nil, fmt.Errorf("keys-only feed %s: %w", c, err)
			}
			out["keys:"+c] = evs
		}
	}
	// the bucket-level feed delivers one marker per collection
	if env.multi != nil {
		var all []sgbucket.FeedEvent
		for i := 0; i < len(collNames); i++ {
			evs, err := env.multi.drainUntil("~mark", val, 10*time.Second)
			if err != nil {
				return nil, fmt.Errorf("bucket-level feed: %w", err)
			}
			all = append(all, evs...)
		}
		out["multi"] = all
	}
	return out, nil
}

func (sr *seqRunner) collectLive(x *Ctx, absKey func(string) string, suffix string) ([]CollEvs, error) {
	raw, err := sr.flushFeeds()
	if err != nil {
		return nil, err
	}
	var out []CollEvs
	for _, c := range collNames {
		ce := CollEvs{C: c, Evs: []Ev{}}
		for j := range raw[c] {
			k := string(raw[c][j].Key)
			if strings.HasPrefix(k, "~") {
				continue
			}
			ce.Evs = append(ce.Evs, x.absEvent(&raw[c][j], absKey))
		}
		out = append(out, ce)
	}
	sr.lastKeys = nil
	for _, c := range collNames {
		ce := CollEvs{C: c, Evs: []Ev{}}
		for j := range raw["keys:"+c] {
			k := string(raw["keys:"+c][j].Key)
			if strings.HasPrefix(k, "~") {
				continue
			}
			e := raw["keys:"+c][j]
			e.Value = nil
			e.DataType &^= sgbucket.FeedDataTypeXattr // a keys-only event carries neither body nor xattrs
			ce.Evs = append(ce.Evs, x.absEvent(&e, absKey))
		}
		sr.lastKeys = append(sr.lastKeys, ce)
	}
	// the bucket-level feed's events, split by the collection id they carry
	sr.lastMulti = nil
	for ci, c := range collNames {
		ce := CollEvs{C: c, Evs: []Ev{}}
		for j := range raw["multi"] {
			k := string(raw["multi"][j].Key)
			if strings.HasPrefix(k, "~") || int(raw["multi"][j].CollectionID) != ci {
				continue
			}
			ce.Evs = append(ce.Evs, x.absEvent(&raw["multi"][j], absKey))
		}
		sr.lastMulti = append(sr.lastMulti, ce)
	}
	return out, nil
}

// cmdSeq: vh seq -in paths.json -out trace.ndjson -mode mem|disk|both -workers N -scratch DIR
func cmdSeq(args []string) error {
	fs := newFlagSet("seq")
	in := fs.String("in", "", "paths JSON (array of arrays of ops)")
	out := fs.String("out", "", "trace ndjson")
	mode := fs.String("mode", "mem", "mem | disk | both")
	workers := fs.Int("workers", 8, "parallel workers")
	scratch := fs.String("scratch", "", "scratch dir for on-disk buckets")
	perEnv := fs.Int("perenv", 200, "paths per bucket")
	aux := fs.Bool("aux", false, "also observe SQL queries and views after every step")
	if err := fs.Parse(args); err != nil {
		return err
	}
	data, err := os.ReadFile(*in)
	if err != nil {
		return err
	}
	var paths [][]GenOp
	if err := json.Unmarshal(data, &paths); err != nil {
		return err
	}
	tw, err := NewTraceWriter(*out)
	if err != nil {
		return err
	}
	defer tw.Close()
	defer func() { _ = WriteBodyTable(*out + ".bodies.json") }()
	type job struct {
		no   int
		mode string
		ops  []GenOp
	}
	var jobs []job
	no := 0
	for _, p := range paths {
		if *mode == "mem" || *mode == "both" {
			no++
			jobs = append(jobs, job{no, "mem", p})
		}
		if *mode == "disk" || *mode == "both" {
			no++
			jobs = append(jobs, job{no, "disk", p})
		}
	}
	ch := make(chan job)
	var wg sync.WaitGroup
	var emu sync.Mutex
	var errs []string
	for w := 0; w < *workers; w++ {
		wg.Add(1)
		go func() {
			defer wg.Done()
			envs := map[string]*seqEnv{}
			count := map[string]int{}
			defer func() {
				for _, e := range envs {
					e.close()
				}
			}()
			for j := range ch {
				env := envs[j.mode]
				if env == nil || count[j.mode] >= *perEnv {
					if env != nil {
						env.close()
					}
					var err error
					env, err = newSeqEnv(j.mode, *scratch)
					if err != nil {
						emu.Lock()
						errs = append(errs, err.Error())
						emu.Unlock()
						continue
					}
					envs[j.mode] = env
					count[j.mode] = 0
				}
				count[j.mode]++
				sr := &seqRunner{env: env, tw: tw, aux: *aux}
				if err := sr.runPath(j.no, j.ops); err != nil {
					emu.Lock()
					errs = append(errs, err.Error())
					emu.Unlock()
					// the environment may be wedged: start a new one
					env.close()
					delete(envs, j.mode)
				}
			}
		}()
	}
	for _, j := range jobs {
		ch <- j
	}
	close(ch)
	wg.Wait()
	fmt.Printf("SEQ paths=%d lines=%d errors=%d\n", len(jobs), tw.n, len(errs))
	for i, e := range errs {
		if i < 10 {
			fmt.Println("DRIVER-ERROR", e)
		}
	}
	if len(errs) > 0 {
		return fmt.Errorf("%d driver errors", len(errs))
	}
	return nil
}
