package main

import (
	"flag"
	"fmt"
	"os"

	"github.com/couchbaselabs/rosmar"
)

func newFlagSet(name string) *flag.FlagSet { return flag.NewFlagSet(name, flag.ContinueOnError) }

func main() {
	if len(os.Args) < 2 {
		fmt.Fprintln(os.Stderr, "usage: vh <command> [flags]")
		os.Exit(2)
	}
	rosmar.MaxDocSize = 600 // "JB" bodies and "xbig" xattr values are over this limit, everything else far below
	var err error
	switch os.Args[1] {
	case "seq":
		err = cmdSeq(os.Args[2:])
	case "conc":
		err = cmdConc(os.Args[2:])
	case "life":
		err = cmdLife(os.Args[2:])
	case "exp":
		err = cmdExp(os.Args[2:])
	case "view":
		err = cmdView(os.Args[2:])
	case "hlc":
		err = cmdHLC(os.Args[2:])
	case "shut":
		err = cmdShut(os.Args[2:])
	case "stress":
		err = cmdStress(os.Args[2:])
	case "crashchild":
		err = cmdCrashChild(os.Args[2:])
	case "crashcheck":
		err = cmdCrashCheck(os.Args[2:])
	default:
		err = fmt.Errorf("unknown command %s", os.Args[1])
	}
	if err != nil {
		fmt.Fprintln(os.Stderr, "ERROR:", err)
		os.Exit(2)
	}
}
