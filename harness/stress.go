package main

// Randomised stress (no gates, real parallelism): concurrent writers on a handful of keys while a
// checkpointed resume-mode dump feed is run again and again. Recorded: every run's delivered CAS sequence,
// the persisted checkpoint after every run, the final CAS of every key, the commit order of CAS values.
// SeqTrace!Stress validates C08 (order), C15 (nothing skipped across runs, checkpoint <= delivered), C04.

import (
	"context"
	"encoding/json"
	"fmt"
	"math/rand"
	"os"
	"path/filepath"
	"strings"
	"sync"
	"sync/atomic"
	"time"

	sgbucket "github.com/couchbase/sg-bucket"
	"github.com/couchbaselabs/rosmar"
)

type StressRun struct {
	Cas  []*CasRef `json:"cas"`  // mutation/deletion events of the stress keys, in delivery order
	Ckpt *CasRef   `json:"ckpt"` // checkpoint document after the run
}
type StressKey struct {
	Key      string  `json:"key"`
	FinalCas *CasRef `json:"finalcas"`
	FinalVal string  `json:"finalval"` // body, "" = no body
	EvCas    *CasRef `json:"evcas"`
	EvVal    string  `json:"evval"` // body of the last event, "" = deletion
	EvDel    bool    `json:"evdel"`
}
type StressLine struct {
	K       string             `json:"k"`
	Tr      int                `json:"tr"`
	I       int                `json:"i"`
	Mode    string             `json:"mode"`
	Runs    []StressRun        `json:"runs"`
	Live    []*CasRef          `json:"live"`   // what a live feed (running all along) received
	Final   map[string]*CasRef `json:"final"`  // key -> CAS at the end
	Commit  []*CasRef          `json:"commit"` // CAS values in commit order (cas.new hook, under the bucket mutex)
	Writes  int                `json:"writes"`
	Incrs   int                `json:"incrs"`   // successful Incr calls (each by 1)
	Keys    []StressKey        `json:"keys"`    // per key: the final document and the last event the live feed delivered for it
	Counter int                `json:"counter"` // final value of the counter (first Incr creates it with 1)
}

func runStress(trNo int, mode, scratch string, seed int64, writers, perWriter, nkeys int) (*Trace, error) {
	ctx := context.Background()
	name := fmt.Sprintf("stress_%d_%d", os.Getpid(), trNo)
	url := rosmar.InMemoryURL
	if mode == "disk" {
		url = "rosmar://" + filepath.Join(scratch, name)
	}
	b, err := rosmar.OpenBucket(url, name, rosmar.CreateNew)
	if err != nil {
		return nil, err
	}
	defer b.CloseAndDelete(ctx)
	b2, err := rosmar.OpenBucket(url, name, rosmar.CreateOrOpen)
	if err != nil {
		return nil, err
	}
	defer b2.Close(ctx)
	c := b.DefaultDataStore().(*rosmar.Collection)
	c2 := b2.DefaultDataStore().(*rosmar.Collection)
	tr := &Trace{}
	line := &StressLine{K: "stress", Tr: trNo, Mode: mode, Final: map[string]*CasRef{}, Runs: []StressRun{}, Live: []*CasRef{}, Commit: []*CasRef{}}
	var cmu sync.Mutex
	rosmar.VerifSetHook(func(site string, args ...any) {
		if site == "cas.new" {
			cmu.Lock()
			line.Commit = append(line.Commit, tr.C(args[0].(uint64)))
			cmu.Unlock()
		}
	})
	defer rosmar.VerifSetHook(nil)
	// a live feed running all along
	var lmu sync.Mutex
	lastEv := map[string]sgbucket.FeedEvent{}
	lterm := make(chan bool)
	ldone := make(chan struct{})
	markerSeen := make(chan struct{})
	if err := c2.StartDCPFeed(ctx, sgbucket.FeedArguments{ID: "stresslive", Backfill: sgbucket.FeedNoBackfill, Terminator: lterm, DoneChan: ldone},
		func(e sgbucket.FeedEvent) bool {
			if string(e.Key) == "zz-marker" {
				close(markerSeen)
			}
			if strings.HasPrefix(string(e.Key), "s") && (e.Opcode == sgbucket.FeedOpMutation || e.Opcode == sgbucket.FeedOpDeletion) {
				lmu.Lock()
				line.Live = append(line.Live, tr.C(e.Cas))
				lastEv[string(e.Key)] = e
				lmu.Unlock()
			}
			return true
		}, nil); err != nil {
		return nil, err
	}
	var incrs int64
	var wg sync.WaitGroup
	for w := 0; w < writers; w++ {
		wg.Add(1)
		go func(w int) {
			defer wg.Done()
			rnd := rand.New(rand.NewSource(seed*1000 + int64(w)))
			coll := c
			if w%2 == 1 {
				coll = c2
			}
			for j := 0; j < perWriter; j++ {
				key := fmt.Sprintf("s%d", rnd.Intn(nkeys))
				switch rnd.Intn(4) {
				case 0:
					_ = coll.Delete(key)
				case 1:
					if _, err := coll.Incr("s-counter", 1, 1, 0); err == nil {
						atomic.AddInt64(&incrs, 1)
					}
				default:
					_ = coll.SetRaw(key, 0, nil, []byte(fmt.Sprintf("w%d-%d", w, j)))
				}
			}
		}(w)
	}
	finished := make(chan struct{})
	go func() { wg.Wait(); close(finished) }()
	oneRun := func() error {
		var run StressRun
		var mu sync.Mutex
		done := make(chan struct{})
		err := c.StartDCPFeed(ctx, sgbucket.FeedArguments{ID: "stressck", Backfill: sgbucket.FeedResume, Dump: true, CheckpointPrefix: "cp", DoneChan: done},
			func(e sgbucket.FeedEvent) bool {
				if e.Opcode == sgbucket.FeedOpMutation || e.Opcode == sgbucket.FeedOpDeletion {
					mu.Lock()
					run.Cas = append(run.Cas, tr.C(e.Cas))
					mu.Unlock()
				}
				return true
			}, nil)
		if err != nil {
			return err
		}
		<-done
		var cp struct {
			LastSeq uint64 `json:"last_seq"`
		}
		run.Ckpt = tr.C(0)
		if _, err := c.Get("cp:stressck", &cp); err == nil {
			run.Ckpt = tr.C(cp.LastSeq)
		}
		if run.Cas == nil {
			run.Cas = []*CasRef{}
		}
		line.Runs = append(line.Runs, run)
		return nil
	}
	for running := true; running; {
		select {
		case <-finished:
			running = false
		default:
		}
		if err := oneRun(); err != nil {
			return nil, err
		}
		if len(line.Runs) > 400 {
			break
		}
	}
	<-finished
	for i := 0; i < 2; i++ {
		if err := oneRun(); err != nil {
			return nil, err
		}
	}
	keys := []string{"s-counter"}
	for i := 0; i < nkeys; i++ {
		keys = append(keys, fmt.Sprintf("s%d", i))
	}
	for _, k := range keys {
		xs, cas, err := c.GetXattrs(ctx, k, []string{"$document"})
		_ = xs
		if err == nil {
			line.Final[k] = tr.C(cas)
		} else {
			line.Final[k] = tr.C(0)
		}
	}
	// flush the live feed with a marker, then stop it
	if err := c.SetRaw("zz-marker", 0, nil, []byte("m")); err != nil {
		return nil, err
	}
	select {
	case <-markerSeen: // everything posted before the marker has been delivered
	case <-time.After(10 * time.Second):
		return nil, fmt.Errorf("the live feed did not deliver the final marker")
	}
	close(lterm)
	<-ldone
	lmu.Lock()
	for _, k := range keys {
		sk := StressKey{Key: k, FinalCas: line.Final[k], EvCas: tr.C(0)}
		if v, _, err := c.GetRaw(k); err == nil {
			sk.FinalVal = string(v)
		}
		if ev, ok := lastEv[k]; ok {
			sk.EvCas = tr.C(ev.Cas)
			sk.EvDel = ev.Opcode == sgbucket.FeedOpDeletion
			sk.EvVal = string(ev.Value)
		}
		line.Keys = append(line.Keys, sk)
	}
	lmu.Unlock()
	line.Writes = writers * perWriter
	line.Incrs = int(atomic.LoadInt64(&incrs))
	var cv uint64
	if _, err := c.Get("s-counter", &cv); err == nil {
		line.Counter = int(cv)
	}
	tr.Add(line)
	return tr, nil
}

// cmdStress: vh stress -out trace.ndjson -n N -seed S -scratch DIR
func cmdStress(args []string) error {
	fs := newFlagSet("stress")
	out := fs.String("out", "", "trace ndjson")
	n := fs.Int("n", 8, "number of stress runs")
	seed := fs.Int64("seed", 1, "seed")
	scratch := fs.String("scratch", "", "scratch dir")
	if err := fs.Parse(args); err != nil {
		return err
	}
	f, err := os.Create(*out)
	if err != nil {
		return err
	}
	defer f.Close()
	enc := json.NewEncoder(f)
	lines := 0
	for i := 0; i < *n; i++ {
		mode := []string{"mem", "disk"}[i%2]
		tr, err := runStress(i+1, mode, *scratch, *seed*100+int64(i), 8, 25, 6)
		if err != nil {
			return err
		}
		tr.assignRanks()
		for _, s := range tr.steps {
			enc.Encode(s)
			lines++
		}
	}
	fmt.Printf("STRESS runs=%d lines=%d\n", *n, lines)
	return nil
}
