package main

import (
	"bufio"
	"encoding/json"
	"os"
	"sort"
	"strconv"
	"sync"
)

// CasRef is a concrete CAS that is serialised as its rank among all CAS values of one trace
// (0 stays 0). Order and equality are preserved; TLC integers are 32 bit, real CAS are not.
type CasRef struct {
	raw  uint64
	rank int
}

func (c *CasRef) MarshalJSON() ([]byte, error) {
	if c == nil {
		return []byte("0"), nil
	}
	if rawCasJSON {
		return []byte("\"c:" + strconv.FormatUint(c.raw, 10) + "\""), nil
	}
	return []byte(strconv.Itoa(c.rank)), nil
}

// Trace collects the steps of one path; ranks are assigned when it is flushed.
type Trace struct {
	mu     sync.Mutex
	refs   []*CasRef
	steps  []any
	intern map[uint64]int
}

// C registers a concrete CAS. Until the trace is flushed its rank is a provisional id that is
// equal for equal values (enough for change detection); Flush replaces it by the true rank.
func (t *Trace) C(raw uint64) *CasRef {
	t.mu.Lock()
	defer t.mu.Unlock()
	if t.intern == nil {
		t.intern = map[uint64]int{0: 0}
	}
	id, ok := t.intern[raw]
	if !ok {
		id = len(t.intern)
		t.intern[raw] = id
	}
	r := &CasRef{raw: raw, rank: id}
	t.refs = append(t.refs, r)
	return r
}

func (t *Trace) Add(step any) { t.steps = append(t.steps, step) }

func (t *Trace) assignRanks() {
	vals := map[uint64]bool{}
	for _, r := range t.refs {
		if r.raw != 0 {
			vals[r.raw] = true
		}
	}
	sorted := make([]uint64, 0, len(vals))
	for v := range vals {
		sorted = append(sorted, v)
	}
	sort.Slice(sorted, func(i, j int) bool { return sorted[i] < sorted[j] })
	rank := map[uint64]int{0: 0}
	for i, v := range sorted {
		rank[v] = i + 1
	}
	for _, r := range t.refs {
		r.rank = rank[r.raw]
	}
}

// TraceWriter serialises traces from many workers into one ndjson file.
type TraceWriter struct {
	mu sync.Mutex
	f  *os.File
	w  *bufio.Writer
	n  int
}

func NewTraceWriter(path string) (*TraceWriter, error) {
	f, err := os.Create(path)
	if err != nil {
		return nil, err
	}
	return &TraceWriter{f: f, w: bufio.NewWriterSize(f, 1<<20)}, nil
}

func (tw *TraceWriter) Flush(t *Trace) error {
	t.assignRanks()
	tw.mu.Lock()
	defer tw.mu.Unlock()
	for _, s := range t.steps {
		b, err := json.Marshal(s)
		if err != nil {
			return err
		}
		tw.w.Write(b)
		tw.w.WriteByte('\n')
		tw.n++
	}
	return nil
}

func (tw *TraceWriter) Close() error {
	tw.w.Flush()
	return tw.f.Close()
}
