package main

// Gate scheduler: deterministic replay of TLC-generated interleavings on real goroutines.
// Every verifPoint hook site that lies OUTSIDE the bucket mutex is a gate: a goroutine that
// belongs to a scheduled process parks there until the controller releases it. Exactly one
// process runs at a time, so a behaviour of the model (a sequence of process names) determines
// the execution. Sites inside the mutex are never gates (a parked goroutine never holds the
// bucket mutex, so a released one never blocks on a parked one); they only record stamps.

import (
	"bytes"
	"fmt"
	"runtime"
	"strconv"
	"strings"
	"sync"
	"sync/atomic"
	"time"

	"github.com/couchbaselabs/rosmar"
)

func goid() int64 {
	var buf [64]byte
	n := runtime.Stack(buf[:], false)
	// "goroutine 123 ["
	b := buf[:n]
	b = b[len("goroutine "):]
	i := bytes.IndexByte(b, ' ')
	id, _ := strconv.ParseInt(string(b[:i]), 10, 64)
	return id
}

var gateSites = map[string]bool{
	"op.start": true, "txn.enter": true, "post.before": true, "post.after": true,
	"update.read.done": true, "subdoc.read.done": true, "wuwx.read.done": true,
	"feed.backfill.done": true, "feed.registered": true, "feed.deliver": true, "feed.term": true, "feed.exit": true,
	"exp.fire": true, "exp.locked": true, "exp.done": true, // (the last two with the expiry mutex held: only the shutdown driver enables them)
	"open.cachemiss": true, "open.beforeregister": true, "close.unregistered": true,
	"closedelete.enter": true, "view.updateafter": true, "cb": true,
}

type procState struct {
	name    string
	release chan struct{}
	site    string // gate it is parked at, "" if running/done
	args    []any
	done    bool
	free    bool // superseded background goroutine: no longer gated
}

type gateEvent struct {
	proc string
	site string // "" = finished
	args []any
}

// HookRec is one recorded hook crossing (gate or not), in global order.
type HookRec struct {
	Stamp int64
	Proc  string
	Site  string
	Args  []any
}

type Controller struct {
	mu     sync.Mutex
	byGid  map[int64]*procState
	byName map[string]*procState
	events chan gateEvent
	stamp  int64
	recs   []HookRec
	// bgName maps a hook crossing by an unregistered goroutine to a background process name ("" = not scheduled)
	bgName       func(site string, args []any) string
	enabled      map[string]bool // gate sites enabled for this run (nil = all)
	Watchdog     time.Duration
	BlockTimeout time.Duration
}

func NewController() *Controller {
	c := &Controller{byGid: map[int64]*procState{}, byName: map[string]*procState{}, events: make(chan gateEvent, 4096),
		Watchdog: 10 * time.Second, BlockTimeout: 25 * time.Millisecond}
	c.bgName = func(site string, args []any) string {
		switch site {
		case "feed.deliver", "feed.exit":
			if len(args) > 0 && !strings.HasPrefix(fmt.Sprint(args[0]), "live-") && fmt.Sprint(args[0]) != "dump" {
				return "run:" + fmt.Sprint(args[0])
			}
		case "feed.term":
			if len(args) > 0 && !strings.HasPrefix(fmt.Sprint(args[0]), "live-") {
				return "term:" + fmt.Sprint(args[0])
			}
		case "exp.fire", "exp.locked", "exp.done":
			return "timer"
		case "view.updateafter":
			return "viewbg"
		}
		return ""
	}
	return c
}

func (c *Controller) Install() { rosmar.VerifSetHook(c.hook) }
func (c *Controller) Remove()  { rosmar.VerifSetHook(nil) }

func (c *Controller) Stamp() int64 { return atomic.AddInt64(&c.stamp, 1) }

func (c *Controller) hook(site string, args ...any) {
	gid := goid()
	c.mu.Lock()
	p := c.byGid[gid]
	if p == nil {
		if name := c.bgName(site, args); name != "" {
			// a new goroutine of a background process (e.g. the runner of a restarted feed) supersedes
			// the previous one, which is no longer gated
			if old := c.byName[name]; old != nil {
				old.free = true
				if old.site != "" {
					old.site = ""
					go func() { old.release <- struct{}{} }()
				}
			}
			p = &procState{name: name, release: make(chan struct{})}
			c.byName[name] = p
			c.byGid[gid] = p
		}
	}
	name := ""
	if p != nil {
		name = p.name
	}
	c.recs = append(c.recs, HookRec{Stamp: c.Stamp(), Proc: name, Site: site, Args: args})
	gate := p != nil && !p.free && gateSites[site] && (c.enabled == nil || c.enabled[site])
	if gate {
		p.site = site
		p.args = args
	}
	c.mu.Unlock()
	if !gate {
		return
	}
	c.events <- gateEvent{proc: p.name, site: site, args: args}
	<-p.release
}

// Gate is a harness-side gate (e.g. "op.start" before a call, "cb" inside a callback).
func (c *Controller) Gate(site string, args ...any) { c.hook(site, args...) }

// Spawn starts fn as process `name`; fn should call c.Gate("op.start") before each operation.
func (c *Controller) Spawn(name string, fn func()) {
	p := &procState{name: name, release: make(chan struct{})}
	c.mu.Lock()
	c.byName[name] = p
	c.mu.Unlock()
	ready := make(chan struct{})
	go func() {
		c.mu.Lock()
		c.byGid[goid()] = p
		c.mu.Unlock()
		close(ready)
		defer func() {
			c.mu.Lock()
			p.done = true
			p.site = ""
			c.mu.Unlock()
			c.events <- gateEvent{proc: name, site: ""}
		}()
		fn()
	}()
	<-ready
}

// waitEvent waits for the next park/finish event of any process.
func (c *Controller) waitEvent(d time.Duration) (gateEvent, bool) {
	select {
	case e := <-c.events:
		return e, true
	case <-time.After(d):
		return gateEvent{}, false
	}
}

// WaitParked waits until process `name` is parked or done (used right after Spawn, and for
// background processes that are expected to show up).
func (c *Controller) WaitParked(name string, d time.Duration) (site string, done bool, ok bool) {
	deadline := time.Now().Add(d)
	for {
		c.mu.Lock()
		p := c.byName[name]
		if p != nil && (p.site != "" || p.done) {
			s, dn := p.site, p.done
			c.mu.Unlock()
			return s, dn, true
		}
		c.mu.Unlock()
		rem := time.Until(deadline)
		if rem <= 0 {
			return "", false, false
		}
		select {
		case <-c.events:
		case <-time.After(rem):
		}
	}
}

// State returns where a process is: gate site, done, or unknown/running.
func (c *Controller) State(name string) (site string, done bool, known bool) {
	c.mu.Lock()
	defer c.mu.Unlock()
	p := c.byName[name]
	if p == nil {
		return "", false, false
	}
	return p.site, p.done, true
}

// Step releases `name` from its gate and waits until it parks again or finishes.
// Returns the new gate site ("" when finished). ok=false: watchdog expired (blocked).
func (c *Controller) Step(name string) (site string, done bool, ok bool) {
	c.mu.Lock()
	p := c.byName[name]
	if p == nil || p.done || p.site == "" {
		c.mu.Unlock()
		return "", p != nil && p.done, p != nil
	}
	p.site = ""
	c.mu.Unlock()
	p.release <- struct{}{}
	if isBackground(name) {
		// a background goroutine (feed runner, terminator) may legitimately block waiting for input
		site, done, _ = c.WaitParked(name, 30*time.Millisecond)
		return site, done, true
	}
	// A client goroutine that neither parks nor finishes promptly is blocked on a lock held by a parked
	// goroutine (its step is simply not enabled yet); it continues by itself when the lock is released.
	site, done, ok = c.WaitParked(name, c.BlockTimeout)
	return site, done, true
}

func isBackground(name string) bool {
	return strings.HasPrefix(name, "run:") || strings.HasPrefix(name, "term:") || name == "timer" || name == "viewbg"
}

// Parked lists the processes currently parked at a gate.
func (c *Controller) Parked() []string {
	c.mu.Lock()
	defer c.mu.Unlock()
	var out []string
	for n, p := range c.byName {
		if p.site != "" && !p.done {
			out = append(out, n)
		}
	}
	return out
}

// Drain the event channel (events are advisory; state is in procState).
func (c *Controller) drain() {
	for {
		select {
		case <-c.events:
		default:
			return
		}
	}
}

// ReleaseAll lets every parked process run to completion (used at the end of a schedule).
func (c *Controller) ReleaseAll(maxSteps int) bool {
	for i := 0; i < maxSteps; i++ {
		ps := c.Parked()
		if len(ps) == 0 {
			return true
		}
		for _, n := range ps {
			if _, _, ok := c.Step(n); !ok {
				return false
			}
		}
	}
	return len(c.Parked()) == 0
}

func (c *Controller) Records() []HookRec {
	c.mu.Lock()
	defer c.mu.Unlock()
	return append([]HookRec{}, c.recs...)
}

// FreeRun disables all gates and keeps releasing whatever is (or becomes) parked.
func (c *Controller) FreeRun() {
	c.mu.Lock()
	c.enabled = map[string]bool{}
	c.mu.Unlock()
	c.ReleaseParked()
}

// ReleaseParked releases every currently parked process without waiting for it.
func (c *Controller) ReleaseParked() {
	c.mu.Lock()
	var ps []*procState
	for _, p := range c.byName {
		if p.site != "" && !p.done {
			p.site = ""
			ps = append(ps, p)
		}
	}
	c.mu.Unlock()
	for _, p := range ps {
		p.release <- struct{}{}
	}
	c.drain()
}
