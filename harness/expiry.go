package main

// Expiry driver (C14): executes TLC-generated scripts that set, shorten, lengthen, preserve and clear
// expiries (deadlines a few seconds ahead) on several keys and collections, records the expiry timer's
// state after every call, then watches in real time when each document stops being readable and when
// its deletion event arrives.

import (
	"context"
	"encoding/json"
	"fmt"
	"os"
	"path/filepath"
	"sync"
	"time"

	sgbucket "github.com/couchbase/sg-bucket"
	"github.com/couchbaselabs/rosmar"
)

type ExpOp struct {
	Op   string `json:"op"` // Set SetPres Add Touch Delete Incr UpdateXattrs WriteCas Reopen
	Coll string `json:"coll"`
	Key  string `json:"key"`
	E    int    `json:"e"`   // deadline in seconds after script start (0 = never)
	Rel  bool   `json:"rel"` // pass the expiry as an offset instead of an absolute time
}

type ExpDocObs struct {
	C   string `json:"c"`
	K   string `json:"key"`
	Cls string `json:"cls"` // ok | missing
	Exp int    `json:"exp"` // GetExpiry as seconds after script start (0 = none, -1 = not readable)
}
type ExpLine struct {
	K     string      `json:"k"` // reset | op | timeline
	Tr    int         `json:"tr"`
	I     int         `json:"i"`
	Mode  string      `json:"mode"`
	Op    ExpOp       `json:"op"`
	Res   string      `json:"res"`
	Docs  []ExpDocObs `json:"docs"`
	Armed bool        `json:"armed"`
	Next  int         `json:"next"` // timer deadline as seconds after script start (0 = none)
	Fates []ExpFate   `json:"fates"`
}
type ExpFate struct {
	C        string `json:"c"`
	K        string `json:"key"`
	GoneAt   int    `json:"goneat"`   // wall-clock second (after script start) of the first poll that found it missing, -1 = never
	LastSeen int    `json:"lastseen"` // wall-clock second of the last poll that found it readable, -1 = never
	DelEvAt  int    `json:"delevat"`  // second at which a deletion event arrived after the last write, -1 = none
	Watched  int    `json:"watched"`  // second at which watching stopped
}

var expColls = []string{"c0", "c1"}
var expKeys = []string{"k1", "k2"}

func runExpScript(trNo int, mode, scratch string, ops []ExpOp) ([]ExpLine, error) {
	ctx := context.Background()
	name := fmt.Sprintf("exp_%d_%d", os.Getpid(), trNo)
	url := rosmar.InMemoryURL
	if mode == "disk" {
		url = "rosmar://" + filepath.Join(scratch, name)
	}
	b, err := rosmar.OpenBucket(url, name, rosmar.CreateNew)
	if err != nil {
		return nil, err
	}
	defer func() {
		if b != nil {
			_ = b.CloseAndDelete(ctx)
		}
	}()
	colls := map[string]*rosmar.Collection{}
	var evMu sync.Mutex
	type delEv struct {
		c, k string
		at   time.Time
	}
	var dels []delEv
	reopens := 0
	terms := []chan bool{}
	openColl := func(c string) error {
		ds, err := b.NamedDataStore(dsName(c))
		if err != nil {
			return err
		}
		colls[c] = ds.(*rosmar.Collection)
		term := make(chan bool)
		terms = append(terms, term)
		args := sgbucket.FeedArguments{ID: "exp-" + c, Backfill: sgbucket.FeedNoBackfill, Terminator: term}
		return colls[c].StartDCPFeed(ctx, args, func(e sgbucket.FeedEvent) bool {
			if e.Opcode == sgbucket.FeedOpDeletion {
				evMu.Lock()
				dels = append(dels, delEv{c, string(e.Key), time.Now()})
				evMu.Unlock()
			}
			return true
		}, nil)
	}
	open := func() error {
		for _, c := range expColls {
			if err := openColl(c); err != nil {
				return err
			}
		}
		return nil
	}
	if err := open(); err != nil {
		return nil, err
	}
	defer func() {
		for _, t := range terms {
			func() { defer func() { _ = recover() }(); close(t) }()
		}
	}()
	if trNo%2 == 0 {
		// every other script runs on a bucket whose expiry machinery has already run once
		w := uint32(time.Now().Unix()) + 1
		for _, c := range expColls {
			if err := colls[c].Set("warm", w, nil, []byte(`0`)); err != nil {
				return nil, err
			}
		}
		deadline := time.Now().Add(6 * time.Second)
		for time.Now().Before(deadline) {
			n := 0
			for _, c := range expColls {
				if ok, _ := colls[c].Exists("warm"); ok {
					n++
				}
			}
			if n == 0 {
				break
			}
			time.Sleep(50 * time.Millisecond)
		}
	}
	// start just after a second boundary so that all calls of the script fall into the same second
	for time.Now().Nanosecond() > 200_000_000 {
		time.Sleep(10 * time.Millisecond)
	}
	t0 := time.Now().Unix()
	rel := func(abs uint32) int {
		if abs == 0 {
			return 0
		}
		return int(int64(abs) - t0)
	}
	observe := func(line *ExpLine) {
		for _, c := range expColls {
			for _, k := range expKeys {
				o := ExpDocObs{C: c, K: k, Cls: "ok", Exp: -1}
				if _, _, err := colls[c].GetRaw(k); err != nil {
					o.Cls = classify(err)
				} else if e, err := colls[c].GetExpiry(ctx, k); err == nil {
					o.Exp = rel(e)
				}
				line.Docs = append(line.Docs, o)
			}
		}
		set, next := rosmar.VerifExpiryState(b)
		line.Armed = set && next != 0
		line.Next = rel(next)
	}
	var lines []ExpLine
	reset := ExpLine{K: "reset", Tr: trNo, Mode: mode, Res: "ok", Docs: []ExpDocObs{}, Fates: []ExpFate{}}
	lines = append(lines, reset)
	lastWrite := map[string]time.Time{}
	for i, op := range ops {
		line := ExpLine{K: "op", Tr: trNo, I: i + 1, Mode: mode, Op: op, Docs: []ExpDocObs{}, Fates: []ExpFate{}}
		var exp uint32
		if op.E != 0 {
			if op.Rel {
				exp = uint32(op.E) // offset form: rosmar adds the current time
			} else {
				exp = uint32(t0 + int64(op.E))
			}
		}
		c := colls[op.Coll]
		var err error
		func() {
			defer func() {
				if p := recover(); p != nil {
					err = fmt.Errorf("panic: %v", p)
				}
			}()
			switch op.Op {
			case "Set":
				err = c.Set(op.Key, exp, nil, []byte(`1`))
			case "SetPres":
				err = c.Set(op.Key, exp, &sgbucket.UpsertOptions{PreserveExpiry: true}, []byte(`2`))
			case "Add":
				_, err = c.Add(op.Key, exp, []byte(`3`))
			case "Touch":
				_, err = c.Touch(op.Key, exp)
			case "Delete":
				err = c.Delete(op.Key)
			case "Incr":
				_, err = c.Incr(op.Key, 1, 1, exp)
			case "UpdateXattrs":
				var cas uint64
				if _, cas, err = c.GetRaw(op.Key); err == nil {
					_, err = c.UpdateXattrs(ctx, op.Key, exp, cas, map[string][]byte{"_s": []byte(`{"t":"x1"}`)}, nil)
				}
			case "WriteCas":
				var cas uint64
				_, cas, _ = c.GetRaw(op.Key)
				_, err = c.WriteCas(op.Key, exp, cas, []byte(`4`), 0)
			case "Recreate":
				if op.Coll == "c1" {
					if err = b.DropDataStore(dsName("c1")); err == nil {
						err = openColl("c1")
					}
				}
			case "Reopen":
				for _, t := range terms {
					close(t)
				}
				terms = nil
				b.Close(ctx)
				// (in either mode that finds an existing bucket: the pending deadlines are in force again, whichever it is)
				reopens++
				var omode rosmar.OpenMode = rosmar.ReOpenExisting
				if reopens%2 == 1 {
					omode = rosmar.CreateOrOpen
				}
				b, err = rosmar.OpenBucket(url, name, omode)
				if err == nil {
					err = open()
				}
			}
		}()
		if op.Op != "Reopen" && op.Op != "Recreate" {
			lastWrite[op.Coll+"/"+op.Key] = time.Now()
		}
		line.Res = classify(err)
		observe(&line)
		lines = append(lines, line)
		if err != nil && line.Res == "other" {
			line.Res = "other"
		}
	}
	// real-time phase: watch until 5 s after the latest deadline of the script
	maxE := 0
	for _, op := range ops {
		if op.E > maxE {
			maxE = op.E
		}
	}
	watchUntil := t0 + int64(maxE) + 5
	fates := map[string]*ExpFate{}
	for _, c := range expColls {
		for _, k := range expKeys {
			fates[c+"/"+k] = &ExpFate{C: c, K: k, GoneAt: -1, LastSeen: -1, DelEvAt: -1}
		}
	}
	for {
		now := time.Now()
		for _, c := range expColls {
			for _, k := range expKeys {
				f := fates[c+"/"+k]
				// the second is read again after the call: a read that straddles a second boundary is ambiguous
				_, _, err := colls[c].GetRaw(k)
				after := int(time.Now().Unix() - t0)
				if err == nil {
					f.LastSeen = after
				} else if f.GoneAt < 0 && f.LastSeen >= 0 {
					f.GoneAt = after // the later of the two readings: never claims "gone" earlier than it was
				}
			}
		}
		if now.Unix() >= watchUntil {
			break
		}
		time.Sleep(100 * time.Millisecond)
	}
	evMu.Lock()
	for _, d := range dels {
		f := fates[d.c+"/"+d.k]
		if f != nil && d.at.After(lastWrite[d.c+"/"+d.k]) {
			f.DelEvAt = int(d.at.Unix() - t0)
		}
	}
	evMu.Unlock()
	tl := ExpLine{K: "timeline", Tr: trNo, Mode: mode, Res: "ok", Docs: []ExpDocObs{}, Fates: []ExpFate{}}
	for _, c := range expColls {
		for _, k := range expKeys {
			f := fates[c+"/"+k]
			f.Watched = int(time.Now().Unix() - t0)
			tl.Fates = append(tl.Fates, *f)
		}
	}
	observe(&tl)
	lines = append(lines, tl)
	return lines, nil
}

// cmdExp: vh exp -in scripts.json -out trace.ndjson -scratch DIR -mode mem|disk|both
func cmdExp(args []string) error {
	fs := newFlagSet("exp")
	in := fs.String("in", "", "scripts JSON (array of arrays of ops)")
	out := fs.String("out", "", "trace ndjson")
	scratch := fs.String("scratch", "", "scratch dir")
	mode := fs.String("mode", "both", "mem | disk | both")
	par := fs.Int("par", 64, "scripts run concurrently")
	if err := fs.Parse(args); err != nil {
		return err
	}
	data, err := os.ReadFile(*in)
	if err != nil {
		return err
	}
	var scripts [][]ExpOp
	if err := json.Unmarshal(data, &scripts); err != nil {
		return err
	}
	type job struct {
		no   int
		mode string
		ops  []ExpOp
	}
	var jobs []job
	for i, s := range scripts {
		hasReopen := false
		for _, op := range s {
			if op.Op == "Reopen" {
				hasReopen = true
			}
		}
		m := *mode
		if m == "both" {
			m = []string{"mem", "disk"}[i%2]
		}
		if hasReopen {
			m = "disk"
		}
		jobs = append(jobs, job{i + 1, m, s})
	}
	results := make([][]ExpLine, len(jobs))
	errs := make([]error, len(jobs))
	sem := make(chan struct{}, *par)
	var wg sync.WaitGroup
	for i, j := range jobs {
		wg.Add(1)
		go func(i int, j job) {
			defer wg.Done()
			sem <- struct{}{}
			defer func() { <-sem }()
			results[i], errs[i] = runExpScript(j.no, j.mode, *scratch, j.ops)
		}(i, j)
	}
	wg.Wait()
	f, err := os.Create(*out)
	if err != nil {
		return err
	}
	defer f.Close()
	enc := json.NewEncoder(f)
	n, nerr := 0, 0
	for i := range jobs {
		if errs[i] != nil {
			nerr++
			fmt.Println("DRIVER-ERROR", errs[i])
			continue
		}
		for _, l := range results[i] {
			enc.Encode(l)
			n++
		}
	}
	fmt.Printf("EXP scripts=%d lines=%d errors=%d\n", len(jobs), n, nerr)
	return nil
}
