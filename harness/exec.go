package main

import (
	"context"
	"encoding/json"
	"errors"
	"fmt"
	"hash/crc32"
	"strconv"
	"strings"

	sgbucket "github.com/couchbase/sg-bucket"
	"github.com/couchbaselabs/rosmar"
)

// GenOp is one abstract operation of a generated behaviour (produced by TLC or a driver).
type GenOp struct {
	Op   string          `json:"op"`
	Coll string          `json:"coll"`
	Key  string          `json:"key"`
	Exp  string          `json:"exp"`
	Pres bool            `json:"pres"`
	Casc string          `json:"casc"` // zero | cur | stale | never
	Body string          `json:"body"` // body token, "" = none
	Opt  string          `json:"opt"`  // WriteCas: "", raw, addonly, append, addonlyraw
	Sets map[string]XArg `json:"sets"`
	Dels []string        `json:"dels"`
	Db   bool            `json:"db"` // deleteBody / IsTombstone
	Amt  int             `json:"amt"`
	Def  int             `json:"def"`
	Path string          `json:"path"`
	Val  string          `json:"val"`  // subdoc value token, "" = remove
	Newc string          `json:"newc"` // WithMeta new CAS class: hi | mid | low
	Cb   string          `json:"cb"`   // Update callback: set | del | cancel | setexp | retry | err | touchset
	Json bool            `json:"json"` // WithMeta datatype
	H    string          `json:"h"`    // handle: "" / h1 / h2
	P    string          `json:"p"`    // process (concurrent drivers)
	F    *FeedSpec       `json:"f"`    // StartFeed
}

// Args is the abstracted, fully resolved argument record written to the trace (uniform shape).
type Args struct {
	Key     string          `json:"key"`
	Exp     string          `json:"exp"`
	Pres    bool            `json:"pres"`
	Casc    string          `json:"casc"`
	Cas     *CasRef         `json:"cas"`
	Body    Body            `json:"body"`
	HasBody bool            `json:"hasbody"`
	Json    bool            `json:"json"`
	Opt     string          `json:"opt"`
	Sets    map[string]XArg `json:"sets"`
	Dels    map[string]bool `json:"dels"`
	Db      bool            `json:"db"`
	Amt     int             `json:"amt"`
	Def     int             `json:"def"`
	Path    string          `json:"path"`
	Val     string          `json:"val"`
	NewCas  *CasRef         `json:"newcas"`
	Cb      string          `json:"cb"`
	Big     bool            `json:"big"`  // the body or an xattr value exceeds the document size limit
	Badx    bool            `json:"badx"` // an xattr value is not JSON
}

// Res is the abstracted result (uniform shape).
type Res struct {
	Cls  string  `json:"cls"`
	Cas  *CasRef `json:"cas"`
	Body Body    `json:"body"` // returned value (GetAndTouchRaw, GetSubDocRaw as leaf token in R)
	Flag bool    `json:"flag"` // Add: added
	Num  int     `json:"num"`  // Incr result / purge count
	Val  string  `json:"val"`  // GetSubDocRaw: token of the returned JSON
	Err  string  `json:"err"`  // error text, informational only
}

func classify(err error) string {
	if err == nil {
		return "ok"
	}
	var me sgbucket.MissingError
	var ce sgbucket.CasMismatchErr
	var xe sgbucket.XattrMissingError
	var tb sgbucket.DocTooBigErr
	switch {
	case errors.As(err, &me):
		return "missing"
	case errors.As(err, &ce):
		return "casMismatch"
	case errors.As(err, &xe):
		return "xattrMissing"
	case errors.As(err, &tb):
		return "tooBig"
	case errors.Is(err, sgbucket.ErrKeyExists):
		return "keyExists"
	case errors.Is(err, sgbucket.ErrPathNotFound):
		return "pathNotFound"
	case errors.Is(err, sgbucket.ErrPathExists):
		return "pathExists"
	case errors.Is(err, sgbucket.ErrPathMismatch):
		return "pathMismatch"
	case errors.Is(err, rosmar.ErrBucketClosed):
		return "closed"
	case errors.Is(err, sgbucket.ErrNeedXattrs), errors.Is(err, sgbucket.ErrNeedBody),
		errors.Is(err, sgbucket.ErrNilXattrValue), errors.Is(err, sgbucket.ErrUpsertAndDeleteSameXattr),
		errors.Is(err, sgbucket.ErrDeleteXattrOnDocumentInsert), errors.Is(err, sgbucket.ErrDeleteXattrOnTombstone):
		return "argError"
	}
	if strings.Contains(err.Error(), "closed") {
		return "closed"
	}
	return "other"
}

// KeyInfo is what the driver knows about a key from its own observations (used only to
// resolve argument classes such as "current CAS"; never for verdicts).
type KeyInfo struct {
	cur   uint64
	older []uint64
}

// Ctx carries what Exec needs: the collection to call, the driver's knowledge, tables.
type Ctx struct {
	tr       *Trace
	crc      *crcTable
	exp      *expTable
	known    func(coll, key string) *KeyInfo
	maxCas   func() uint64
	snap     map[string]uint64       // CAS of every key at the end of the sequential setup
	foreign  map[uint64]bool         // CAS values this driver chose itself (SetWithMeta / DeleteWithMeta)
	viewAPI  string                  // which view entry point viewRows uses ("" = View, "custom", "query")
	topMark  func() uint64           // newest CAS of the bucket, if the driver knows one outside the operation's collection
	onShown  func(cas uint64)        // called inside Update-style callbacks with the CAS of the version shown
	swapDDoc func(coll, h string) error // replaces the design document of a collection by the other variant (h: through which handle)
}

func (x *Ctx) resolveCas(op *GenOp) uint64 {
	ki := x.known(op.Coll, op.Key)
	switch op.Casc {
	case "", "zero":
		return 0
	case "cur":
		if ki.cur != 0 {
			return ki.cur
		}
		return 424242 // absent key: "current" does not exist; behaves as never-issued
	case "snap":
		// the CAS the key had when the concurrent phase started (a client that read before the race)
		if x.snap != nil {
			if v, ok := x.snap[op.Coll+"/"+op.Key]; ok && v != 0 {
				return v
			}
		}
		return 434343
	case "stale":
		if len(ki.older) > 0 {
			return ki.older[len(ki.older)-1]
		}
		return 414141
	case "never":
		return 777
	case "sibkey":
		// the current CAS of the other key of the same collection
		// (the driver's keys are the model's key names plus a per-path suffix)
		other := op.Key
		if strings.HasPrefix(op.Key, "k1") {
			other = "k2" + op.Key[2:]
		} else if strings.HasPrefix(op.Key, "k2") {
			other = "k1" + op.Key[2:]
		}
		if o := x.known(op.Coll, other); o.cur != 0 && o.cur != ki.cur {
			return o.cur
		}
		return 454545
	}
	panic("bad cas class " + op.Casc)
}

func (x *Ctx) resolveNewCas(op *GenOp) uint64 {
	ki := x.known(op.Coll, op.Key)
	switch op.Newc {
	case "", "hi":
		return x.maxCas() + (1 << 24)
	case "mid":
		if ki.cur > 2 {
			return ki.cur - 1
		}
		return x.maxCas() - 1
	case "sib":
		// exactly the CAS the same key carries in another collection
		var sib uint64
		for _, c := range collNames {
			if c != op.Coll {
				if o := x.known(c, op.Key); o.cur > sib && o.cur != ki.cur {
					sib = o.cur
				}
			}
		}
		if sib != 0 {
			return sib
		}
		return x.maxCas() + (1 << 24)
	case "low":
		return 5000 + uint64(len(ki.older))
	case "far":
		// a minute ahead of the clock: regular writes that follow must still be seen as newer than it
		return x.maxCas() + 60_000_000_000
	case "btw":
		// just below the newest CAS of the bucket (which sits in another collection when the driver has one)
		if x.topMark != nil {
			if t := x.topMark(); t > 2 {
				return t - 1
			}
		}
		return x.maxCas() + (1 << 23)
	}
	panic("bad newcas class " + op.Newc)
}

func macroSpecs(sets map[string]XArg) []sgbucket.MacroExpansionSpec {
	var specs []sgbucket.MacroExpansionSpec
	for _, name := range sortedKeys(sets) {
		a := sets[name]
		if a.T == "-" {
			continue
		}
		if a.MC {
			specs = append(specs, sgbucket.MacroExpansionSpec{Path: name + ".c", Type: sgbucket.MacroCas})
		}
		if a.MH {
			specs = append(specs, sgbucket.MacroExpansionSpec{Path: name + ".h", Type: sgbucket.MacroCrc32c})
		}
	}
	return specs
}

func concreteSets(sets map[string]XArg) map[string][]byte {
	m := map[string][]byte{}
	for name, a := range sets {
		if a.T != "-" {
			m[name] = ConcreteXattr(a)
		}
	}
	return m
}

func fullSets(sets map[string]XArg) map[string]XArg {
	m := map[string]XArg{}
	for _, n := range XNames {
		m[n] = XArg{T: "-"}
	}
	for k, v := range sets {
		m[k] = v
	}
	return m
}

func subdocValue(tok string) []byte {
	switch tok {
	case "":
		return nil
	case "{}":
		return []byte(`{}`)
	}
	return []byte(fmt.Sprintf("%q", tok))
}

// Exec performs one operation on the real collection and returns abstracted args and result.
// A panic inside rosmar is recovered and reported as class "panic".
func (x *Ctx) Exec(c *rosmar.Collection, bucket *rosmar.Bucket, op *GenOp) (a Args, r Res) {
	ctx := context.Background()
	body := ConcreteBody(op.Body)
	x.crc.note(body)
	a = Args{Key: op.Key, Exp: op.Exp, Pres: op.Pres, Casc: op.Casc, Body: AbstractBody(body), HasBody: body != nil,
		Json: op.Json, Opt: op.Opt, Sets: fullSets(op.Sets), Dels: map[string]bool{}, Db: op.Db, Amt: op.Amt, Def: op.Def,
		Path: op.Path, Val: op.Val, Cb: op.Cb}
	for _, xa := range op.Sets {
		if xa.T == "xbig" {
			a.Big = true
		}
		if xa.T == "xbad" {
			a.Badx = true
		}
	}
	if op.Body == "JB" {
		a.Big = true
	}
	if a.Exp == "" {
		a.Exp = "0"
	}
	if a.Casc == "" {
		a.Casc = "zero"
	}
	if a.Path == "" {
		a.Path = "-"
	}
	for _, n := range XNames {
		a.Dels[n] = false
	}
	for _, d := range op.Dels {
		a.Dels[d] = true
	}
	cas := x.resolveCas(op)
	a.Cas = x.tr.C(cas)
	a.NewCas = x.tr.C(0)
	r = Res{Body: NoBody(), Cas: x.tr.C(0)}
	exp := x.exp.Concrete(op.Exp)
	var err error
	var casOut uint64
	defer func() {
		if p := recover(); p != nil {
			r.Cls = "panic"
			r.Err = fmt.Sprint(p)
		}
	}()
	var upsert *sgbucket.UpsertOptions
	if op.Pres {
		upsert = &sgbucket.UpsertOptions{PreserveExpiry: true}
	}
	mopts := &sgbucket.MutateInOptions{PreserveExpiry: op.Pres, MacroExpansion: macroSpecs(op.Sets)}
	sets := concreteSets(op.Sets)
	var dels []string
	if len(op.Dels) > 0 {
		dels = op.Dels
	}
	switch op.Op {
	case "Set":
		err = c.Set(op.Key, exp, upsert, body)
	case "SetRaw":
		err = c.SetRaw(op.Key, exp, upsert, body)
	case "Add":
		r.Flag, err = c.Add(op.Key, exp, body)
	case "AddRaw":
		r.Flag, err = c.AddRaw(op.Key, exp, body)
	case "WriteCas":
		var opt sgbucket.WriteOptions
		switch op.Opt {
		case "raw":
			opt = sgbucket.Raw
		case "addonly":
			opt = sgbucket.AddOnly
		case "addonlyraw":
			opt = sgbucket.AddOnly | sgbucket.Raw
		case "append":
			opt = sgbucket.Append
		}
		var val any
		if body != nil {
			val = body
		}
		casOut, err = c.WriteCas(op.Key, exp, cas, val, opt)
	case "Remove":
		casOut, err = c.Remove(op.Key, cas)
	case "Delete":
		err = c.Delete(op.Key)
	case "Update":
		askedU := false
		casOut, err = c.Update(op.Key, exp, func(cur []byte) ([]byte, *uint32, bool, error) {
			if op.Cb == "retry" && !askedU {
				askedU = true
				return nil, nil, false, sgbucket.ErrCasFailureShouldRetry // "call me again"
			}
			if x.onShown != nil {
				// Update does not show the CAS; identify the version by the body's checksum instead
				x.onShown(uint64(crc32.Checksum(cur, crc32.MakeTable(crc32.Castagnoli))) + 1)
			}
			switch op.Cb {
			case "inc":
				n, _ := strconv.ParseUint(string(cur), 10, 32)
				return []byte(strconv.FormatUint(n+1, 10)), nil, false, nil
			case "set", "retry":
				return body, nil, false, nil
			case "touchset":
				// the callback itself touches the key (which keeps the CAS) before it returns the new body
				if !askedU {
					askedU = true
					_, _ = c.Touch(op.Key, x.exp.Concrete("E2"))
				}
				return body, nil, false, nil
			case "err":
				return []byte(`{"never":"stored"}`), nil, false, errors.New("callback failed")
			case "del":
				return nil, nil, true, nil
			case "cancel":
				return nil, nil, false, nil
			case "setexp":
				e2 := x.exp.Concrete("E2")
				return nil, &e2, false, nil
			}
			panic("bad cb")
		})
	case "Incr":
		var n uint64
		n, err = c.Incr(op.Key, uint64(op.Amt), uint64(op.Def), exp)
		r.Num = int(n)
	case "Touch":
		casOut, err = c.Touch(op.Key, exp)
	case "GetAndTouchRaw":
		var v []byte
		v, casOut, err = c.GetAndTouchRaw(op.Key, exp)
		r.Body = AbstractBody(v)
	case "SetXattrs":
		casOut, err = c.SetXattrs(ctx, op.Key, sets)
	case "UpdateXattrs":
		casOut, err = c.UpdateXattrs(ctx, op.Key, exp, cas, sets, mopts)
	case "RemoveXattrs":
		err = c.RemoveXattrs(ctx, op.Key, op.Dels, cas)
	case "DeleteSubDocPaths":
		err = c.DeleteSubDocPaths(ctx, op.Key, op.Dels...)
	case "WriteWithXattrs":
		casOut, err = c.WriteWithXattrs(ctx, op.Key, exp, cas, body, sets, dels, mopts)
	case "WriteTombstoneWithXattrs":
		casOut, err = c.WriteTombstoneWithXattrs(ctx, op.Key, exp, cas, sets, dels, op.Db, mopts)
	case "WriteResurrectionWithXattrs":
		casOut, err = c.WriteResurrectionWithXattrs(ctx, op.Key, exp, body, sets, mopts)
	case "WriteUpdateWithXattrs":
		mo := &sgbucket.MutateInOptions{PreserveExpiry: op.Pres}
		// "apply-cur" / "apply-stale": the caller supplies the version to start from (the current one, or one with an
		// outdated CAS, which must send the call back to reading); "retry": the callback asks once to be called again
		var previous *sgbucket.BucketDocument
		if op.Cb == "apply-cur" || op.Cb == "apply-stale" {
			// (only for a live document: what a caller would pass for a tombstone is not specified here)
			if b0, xs0, cas0, gerr := c.GetWithXattrs(ctx, op.Key, XNames); gerr == nil && len(b0) > 0 {
				previous = &sgbucket.BucketDocument{Body: b0, Xattrs: xs0, Cas: cas0}
				if op.Cb == "apply-stale" {
					previous.Cas = cas0 - 1
				}
			}
		}
		asked := false
		casOut, err = c.WriteUpdateWithXattrs(ctx, op.Key, XNames, 0, previous, mo,
			func(doc []byte, xattrs map[string][]byte, cas uint64) (sgbucket.UpdatedDoc, error) {
				if op.Cb == "retry" && !asked {
					asked = true
					return sgbucket.UpdatedDoc{}, sgbucket.ErrCasFailureShouldRetry
				}
				if x.onShown != nil {
					x.onShown(cas)
				}
				if op.Cb == "inc" {
					n, _ := strconv.ParseUint(string(doc), 10, 32)
					return sgbucket.UpdatedDoc{Doc: []byte(strconv.FormatUint(n+1, 10)), Xattrs: sets, Spec: macroSpecs(op.Sets)}, nil
				}
				if op.Cb == "cancel" {
					return sgbucket.UpdatedDoc{}, errors.New("cancelled by callback")
				}
				ud := sgbucket.UpdatedDoc{Doc: body, Xattrs: sets, XattrsToDelete: dels, IsTombstone: op.Db,
					Spec: macroSpecs(op.Sets)}
				if op.Exp != "" && op.Exp != "0" {
					e2 := exp
					ud.Expiry = &e2
				}
				return ud, nil
			})
	case "DeleteWithXattrs":
		err = c.DeleteWithXattrs(ctx, op.Key, op.Dels)
	case "UpdateXattrDeleteBody":
		for _, name := range sortedKeys(sets) { // exactly one xattr
			casOut, err = c.UpdateXattrDeleteBody(ctx, op.Key, name, exp, cas, sets[name], mopts)
		}
	case "SetWithMeta", "DeleteWithMeta":
		newCas := x.resolveNewCas(op)
		a.NewCas = x.tr.C(newCas)
		if x.foreign == nil {
			x.foreign = map[uint64]bool{}
		}
		x.foreign[newCas] = true
		var xb []byte
		if len(sets) > 0 {
			m := map[string]json.RawMessage{}
			for k, v := range sets {
				m[k] = v
			}
			xb, _ = json.Marshal(m)
		} else if op.Opt == "emptyx" {
			xb = []byte(`{}`) // an xattr object without members: no xattrs
		}
		if op.Op == "SetWithMeta" {
			dt := sgbucket.FeedDataTypeRaw
			if op.Json {
				dt = sgbucket.FeedDataTypeJSON
			}
			err = c.SetWithMeta(ctx, op.Key, cas, newCas, exp, xb, body, dt)
		} else {
			err = c.DeleteWithMeta(ctx, op.Key, cas, newCas, exp, xb)
		}
	case "WriteSubDoc":
		casOut, err = c.WriteSubDoc(ctx, op.Key, op.Path, cas, subdocValue(op.Val))
	case "SubdocInsert":
		var v any
		if op.Val == "{}" {
			v = map[string]any{}
		} else if op.Val != "" {
			v = op.Val
		}
		err = c.SubdocInsert(ctx, op.Key, op.Path, cas, v)
	case "GetSubDocRaw":
		var v []byte
		v, casOut, err = c.GetSubDocRaw(ctx, op.Key, op.Path)
		if err == nil {
			r.Val = abstractSubdocValue(v)
		}
	case "PurgeTombstones":
		var n int64
		n, err = bucket.PurgeTombstones()
		r.Num = int(n)
	case "Get":
		var v []byte
		casOut, err = c.Get(op.Key, &v)
		r.Body = AbstractBody(v)
	case "GetRaw":
		var v []byte
		v, casOut, err = c.GetRaw(op.Key)
		r.Body = AbstractBody(v)
	case "SwapDDoc":
		if x.swapDDoc != nil {
			err = x.swapDDoc(op.Coll, op.H)
		}
	case "Nop":
	default:
		panic("unknown op " + op.Op)
	}
	r.Cls = classify(err)
	if err != nil {
		r.Err = err.Error()
		if len(r.Err) > 80 {
			r.Err = r.Err[:80]
		}
	}
	r.Cas = x.tr.C(casOut)
	return
}

func abstractSubdocValue(v []byte) string {
	var s string
	if json.Unmarshal(v, &s) == nil {
		return s
	}
	var m map[string]any
	if json.Unmarshal(v, &m) == nil {
		if len(m) == 0 {
			return "{}"
		}
		if xs, ok := m["x"].(string); ok && len(m) == 1 {
			return "{x:" + xs + "}"
		}
	}
	return "?"
}
