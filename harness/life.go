package main

// Lifecycle driver (C13, C16, sequential part of C20): executes TLC-generated action lists over
// bucket handles, collections and feeds, and records after every action what every handle, every
// feed and the registry show.

import (
	"context"
	"encoding/json"
	"fmt"
	"os"
	"path/filepath"
	"sort"
	"strings"
	"sync"
	"time"

	sgbucket "github.com/couchbase/sg-bucket"
	"github.com/couchbaselabs/rosmar"
)

type LifeAct struct {
	Kind string `json:"kind"`
	H    string `json:"h"`
	N    string `json:"n"`
	U    string `json:"u"`
	Mode string `json:"mode"`
	C    string `json:"c"`
	F    string `json:"f"`
	Fk   string `json:"fk"`
	ID   int    `json:"id"`
}

type HandleObs struct {
	Cls  string `json:"cls"` // none | ok | closed | err
	C0   []int  `json:"c0"`
	C1   []int  `json:"c1"`
	C2   []int  `json:"c2"`
	C3   []int  `json:"c3"`
	Dd   bool   `json:"dd"`   // collection c1 has the design document
	Has1 bool   `json:"has1"` // ListDataStores lists collection c1
	Q    string `json:"q"`    // a prepared (non-adhoc) query over each collection lists the documents its KV API sees: ok | differs:<coll> | err:<..>
}
type FeedLifeObs struct {
	N     int  `json:"n"`     // callbacks since the previous line
	Done  bool `json:"done"`  // done channel closed
	After int  `json:"after"` // callbacks that arrived after the done channel was closed
}
type LifeLine struct {
	K     string                 `json:"k"` // reset | act
	Tr    int                    `json:"tr"`
	I     int                    `json:"i"`
	Act   LifeAct                `json:"act"`
	Res   string                 `json:"res"`
	Err   string                 `json:"err"`
	Hs    map[string]HandleObs   `json:"hs"`
	Fd    map[string]FeedLifeObs `json:"fd"`
	Reg   map[string]int         `json:"reg"`
	Names []string               `json:"names"`
	Dirs  map[string]bool        `json:"dirs"`
	Gor   int                    `json:"gor"`
	Pre   bool                   `json:"pre"` // reset line: the bucket directories exist already (empty)
}

var lifeHandles = []string{"h1", "h2", "h3", "h4"}
var lifeFeeds = []string{"f1", "f2"}
var lifeNames = []string{"A", "B"}
var lifeUrls = []string{"mem", "mp", "d1", "d2"}

type lifeFeed struct {
	mu    sync.Mutex
	n     int
	after int
	term  chan bool
	done  chan struct{}
	ended bool
}

type lifeRun struct {
	tr      int
	scratch string
	hs      map[string]*rosmar.Bucket
	fd      map[string]*lifeFeed
	used    map[string]bool // handles through which the behaviour has done something other than opening them
	maxID   int
}

func (lr *lifeRun) realName(n string) string { return fmt.Sprintf("%s_t%d_%d", n, os.Getpid(), lr.tr) }
func (lr *lifeRun) url(n, u string) string {
	if u == "mem" {
		return rosmar.InMemoryURL
	}
	if u == "mp" {
		// a memory URL that carries a path: the directory in which the OTHER name's on-disk bucket (at d1) lives
		other := map[string]string{"A": "B", "B": "A"}[n]
		return "rosmar://" + filepath.Join(lr.scratch, fmt.Sprintf("d1_%s_t%d", other, lr.tr)) + "?mode=memory"
	}
	return "rosmar://" + filepath.Join(lr.scratch, fmt.Sprintf("%s_%s_t%d", u, n, lr.tr))
}

func classifyOpen(err error) string {
	if err == nil {
		return "ok"
	}
	s := err.Error()
	switch {
	case strings.Contains(s, "already exists at"):
		return "otherurl"
	case strings.Contains(s, "file exists") || strings.Contains(s, "file already exists"):
		return "exists"
	case strings.Contains(s, "does not exist") || strings.Contains(s, "no such file") || strings.Contains(s, "unable to open database"):
		return "notexist"
	}
	return "other"
}

func lifeColl(c string) sgbucket.DataStoreName {
	if c == "c3" {
		return sgbucket.DataStoreNameImpl{Scope: "t", Collection: "c1"} // the same collection name as c1, in another scope
	}
	if c == "c0" || c == "c2" {
		return dsName(c)
	}
	return dsName("c1")
}

// withTimeout runs f; "hang" if it does not return within d; "panic" if it panics.
func withTimeout(d time.Duration, f func() (string, error)) (cls string, errText string) {
	type out struct {
		cls string
		err error
	}
	ch := make(chan out, 1)
	go func() {
		defer func() {
			if p := recover(); p != nil {
				ch <- out{"panic", fmt.Errorf("%v", p)}
			}
		}()
		c, e := f()
		ch <- out{c, e}
	}()
	select {
	case o := <-ch:
		if o.err != nil {
			errText = o.err.Error()
			if len(errText) > 100 {
				errText = errText[:100]
			}
		}
		return o.cls, errText
	case <-time.After(d):
		return "hang", "no return within " + d.String()
	}
}

func (lr *lifeRun) exec(a *LifeAct) (string, string) {
	ctx := context.Background()
	return withTimeout(4*time.Second, func() (string, error) {
		if a.Kind != "Open" && a.Kind != "StopFeed" && a.Kind != "Close" && lr.hs[a.H] == nil {
			return "nohandle", nil // the open that should have produced this handle was refused
		}
		switch a.Kind {
		case "Open":
			mode := rosmar.OpenMode(rosmar.CreateOrOpen)
			switch a.Mode {
			case "CreateNew":
				mode = rosmar.CreateNew
			case "ReOpenExisting":
				mode = rosmar.ReOpenExisting
			}
			b, err := rosmar.OpenBucket(lr.url(a.N, a.U), lr.realName(a.N), mode)
			if err == nil {
				lr.hs[a.H] = b
			}
			return classifyOpen(err), err
		case "Close":
			if b := lr.hs[a.H]; b != nil {
				b.Close(ctx)
			}
			return "ok", nil
		case "CloseAndDelete":
			err := lr.hs[a.H].CloseAndDelete(ctx)
			return classify(err), err
		case "Write":
			b := lr.hs[a.H]
			ds, err := b.NamedDataStore(lifeColl(a.C))
			if err != nil {
				return classify(err), err
			}
			err = ds.Set(fmt.Sprintf("w%d", a.ID), 0, nil, []byte(`{"w":12}`))
			return classify(err), err
		case "Drop":
			err := lr.hs[a.H].DropDataStore(lifeColl("c1"))
			return classify(err), err
		case "PutDDoc":
			ds, err := lr.hs[a.H].NamedDataStore(lifeColl("c1"))
			if err != nil {
				return classify(err), err
			}
			err = ds.(*rosmar.Collection).PutDDoc(ctx, "vd", viewDDoc())
			return classify(err), err
		case "StartFeed":
			b := lr.hs[a.H]
			lf := &lifeFeed{term: make(chan bool), done: make(chan struct{})}
			slowColl := uint32(0)
			cb := func(e sgbucket.FeedEvent) bool {
				if slowColl != 0 && e.CollectionID == slowColl {
					time.Sleep(4 * time.Millisecond) // one collection's part of a bucket-level dump takes longer than the others'
				}
				// (only the driver's own documents count: a checkpointed feed writes its checkpoint into the collection)
				if (e.Opcode == sgbucket.FeedOpMutation || e.Opcode == sgbucket.FeedOpDeletion) && strings.HasPrefix(string(e.Key), "w") {
					lf.mu.Lock()
					lf.n++
					if lf.ended {
						lf.after++
					}
					lf.mu.Unlock()
				}
				return true
			}
			args := sgbucket.FeedArguments{ID: a.F, Backfill: sgbucket.FeedNoBackfill, Terminator: lf.term, DoneChan: lf.done}
			var err error
			switch a.Fk {
			case "dump", "dumpnb":
				if a.Fk == "dump" {
					args.Backfill = 0
				}
				args.Dump = true
				var ds sgbucket.DataStore
				if ds, err = b.NamedDataStore(lifeColl(a.C)); err == nil {
					err = ds.(*rosmar.Collection).StartDCPFeed(ctx, args, cb, nil)
				}
			case "ckpt":
				// a checkpointed feed that resumes: the existing documents first, then live; it writes its checkpoint when it ends
				args.Backfill = sgbucket.FeedResume
				args.CheckpointPrefix = fmt.Sprintf("cp%d", lr.tr)
				var ds sgbucket.DataStore
				if ds, err = b.NamedDataStore(lifeColl(a.C)); err == nil {
					err = ds.(*rosmar.Collection).StartDCPFeed(ctx, args, cb, nil)
				}
			case "mdump":
				// a bucket-level dump over the default collection and two collections of the same name in different scopes
				args.Dump = true
				args.Backfill = 0
				var d1, d3 sgbucket.DataStore
				if d1, err = b.NamedDataStore(lifeColl("c1")); err == nil {
					d3, err = b.NamedDataStore(lifeColl("c3"))
				}
				if err == nil {
					if lr.tr%2 == 0 {
						slowColl = d1.(*rosmar.Collection).GetCollectionID()
					} else {
						slowColl = d3.(*rosmar.Collection).GetCollectionID()
					}
					args.Scopes = map[string][]string{"_default": {"_default"}, "s": {"c1"}, "t": {"c1"}}
					err = b.StartDCPFeed(ctx, args, cb, nil)
				}
			case "multi":
				if _, err = b.NamedDataStore(lifeColl("c1")); err == nil {
					_, err = b.NamedDataStore(lifeColl("c3"))
				}
				if err == nil {
					args.Scopes = map[string][]string{"_default": {"_default"}, "s": {"c1"}, "t": {"c1"}}
					err = b.StartDCPFeed(ctx, args, cb, nil)
				}
			case "bucket":
				err = b.StartDCPFeed(ctx, args, cb, nil) // bucket-level feed on the default collection
			default:
				var ds sgbucket.DataStore
				if ds, err = b.NamedDataStore(lifeColl(a.C)); err == nil {
					err = ds.(*rosmar.Collection).StartDCPFeed(ctx, args, cb, nil)
				}
			}
			if err == nil {
				lr.fd[a.F] = lf
				ended := make(chan struct{})
				go func() {
					<-lf.done
					lf.mu.Lock()
					lf.ended = true
					lf.mu.Unlock()
					close(ended)
				}()
				if args.Dump {
					// a dump ends by itself: give it time to (an observation taken too early would call it "not ended")
					select {
					case <-ended:
					case <-time.After(3 * time.Second):
					}
				}
			}
			return classify(err), err
		case "StopFeed":
			if lf := lr.fd[a.F]; lf != nil {
				close(lf.term)
				// the feed ends asynchronously: wait for its done channel (bounded)
				select {
				case <-lf.done:
				case <-time.After(3 * time.Second):
				}
			}
			return "ok", nil
		}
		return "other", fmt.Errorf("unknown action %s", a.Kind)
	})
}

func (lr *lifeRun) probe(b *rosmar.Bucket) HandleObs {
	o := HandleObs{Cls: "ok", C0: []int{}, C1: []int{}, C2: []int{}, C3: []int{}, Q: "ok"}
	cls, _ := withTimeout(3*time.Second, func() (string, error) {
		names, err := b.ListDataStores()
		if err != nil {
			return classify(err), err
		}
		for _, c := range []string{"c0", "c1", "c2", "c3"} {
			present := false
			for _, n := range names {
				if n.ScopeName() == lifeColl(c).ScopeName() && n.CollectionName() == lifeColl(c).CollectionName() {
					present = true
				}
			}
			if !present {
				continue
			}
			if c == "c1" {
				o.Has1 = true
			}
			ds, err := b.NamedDataStore(lifeColl(c))
			if err != nil {
				return classify(err), err
			}
			if c == "c1" {
				if dd, err := ds.(*rosmar.Collection).GetDDocs(); err == nil {
					_, o.Dd = dd["vd"]
				}
			}
			var kv []string
			for id := 1; id <= lr.maxID; id++ {
				ok, err := ds.Exists(fmt.Sprintf("w%d", id))
				if err != nil {
					return classify(err), err
				}
				if ok {
					kv = append(kv, fmt.Sprintf("w%d", id))
				}
			}
			sort.Strings(kv)
			if o.Q == "ok" {
				// the same statement text every time, prepared (adhoc=false); it filters on a property every document written by
				// the driver has (their bodies are 8 bytes long, which a binary-JSON guess by SQLite would misread)
				it, err := ds.(*rosmar.Collection).Query(sgbucket.SQLiteLanguage,
					`SELECT json_quote(id) AS id FROM $_keyspace WHERE id LIKE 'w%' AND body->>'w' = 12 ORDER BY id`, nil, sgbucket.RequestPlus, false)
				if err != nil {
					o.Q = "err:" + classify(err)
				} else {
					var ids []string
					var row map[string]any
					for it.Next(context.Background(), &row) {
						ids = append(ids, fmt.Sprint(row["id"]))
						row = nil
					}
					_ = it.Close()
					sort.Strings(ids)
					if strings.Join(ids, ",") != strings.Join(kv, ",") {
						o.Q = "differs:" + c
					}
				}
			}
			for id := 1; id <= lr.maxID; id++ {
				ok, err := ds.Exists(fmt.Sprintf("w%d", id))
				if err != nil {
					return classify(err), err
				}
				if ok {
					switch c {
					case "c0":
						o.C0 = append(o.C0, id)
					case "c1":
						o.C1 = append(o.C1, id)
					case "c3":
						o.C3 = append(o.C3, id)
					default:
						o.C2 = append(o.C2, id)
					}
				}
			}
		}
		return "ok", nil
	})
	o.Cls = cls
	if cls != "ok" && cls != "closed" {
		o.Cls = "err:" + cls
	}
	return o
}

func (lr *lifeRun) feedCounts() map[string][2]int {
	m := map[string][2]int{}
	for f, lf := range lr.fd {
		lf.mu.Lock()
		d := 0
		if lf.ended {
			d = 1
		}
		m[f] = [2]int{lf.n, d}
		lf.mu.Unlock()
	}
	return m
}

// settle waits until feed counters have been stable for 12 ms (at most 150 ms).
func (lr *lifeRun) settle() {
	last := fmt.Sprint(lr.feedCounts(), rosmar.VerifActiveFeedCount())
	stableSince := time.Now()
	deadline := time.Now().Add(600 * time.Millisecond)
	for time.Now().Before(deadline) {
		time.Sleep(2 * time.Millisecond)
		cur := fmt.Sprint(lr.feedCounts(), rosmar.VerifActiveFeedCount())
		if cur != last {
			last = cur
			stableSince = time.Now()
		} else if time.Since(stableSince) > 25*time.Millisecond {
			return
		}
	}
}

func (lr *lifeRun) observe(line *LifeLine, prevN map[string]int, baseGor int) {
	lr.settle()
	line.Hs = map[string]HandleObs{}
	for _, h := range lifeHandles {
		if b := lr.hs[h]; b != nil && !lr.used[h] {
			// a handle is looked through only once the behaviour itself has used it: looking caches the collections in
			// the handle, and a handle that has never touched a collection is a state of its own
			line.Hs[h] = HandleObs{Cls: "skip", C0: []int{}, C1: []int{}, C2: []int{}, C3: []int{}, Q: "ok"}
		} else if b != nil {
			line.Hs[h] = lr.probe(b)
		} else {
			line.Hs[h] = HandleObs{Cls: "none", C0: []int{}, C1: []int{}, C2: []int{}, C3: []int{}, Q: "ok"}
		}
	}
	line.Fd = map[string]FeedLifeObs{}
	for _, f := range lifeFeeds {
		if lf := lr.fd[f]; lf != nil {
			lf.mu.Lock()
			line.Fd[f] = FeedLifeObs{N: lf.n - prevN[f], Done: lf.ended, After: lf.after}
			prevN[f] = lf.n
			lf.mu.Unlock()
		} else {
			line.Fd[f] = FeedLifeObs{}
		}
	}
	counts, names := rosmar.VerifRegistrySnapshot()
	line.Reg = map[string]int{}
	line.Names = []string{}
	for _, n := range lifeNames {
		line.Reg[n] = int(counts[lr.realName(n)])
		for _, rn := range names {
			if rn == lr.realName(n) {
				line.Names = append(line.Names, n)
			}
		}
	}
	sort.Strings(line.Names)
	line.Dirs = map[string]bool{}
	for _, n := range lifeNames {
		for _, u := range []string{"d1", "d2"} {
			dir := strings.TrimPrefix(lr.url(n, u), "rosmar://")
			_, err := os.Stat(filepath.Join(dir, "rosmar.sqlite3"))
			line.Dirs[n+"/"+u] = err == nil
		}
	}
	line.Gor = int(rosmar.VerifActiveFeedCount()) - baseGor
}

func (lr *lifeRun) cleanup() {
	ctx := context.Background()
	for _, lf := range lr.fd {
		func() {
			defer func() { _ = recover() }()
			close(lf.term)
		}()
	}
	for _, n := range lifeNames {
		for _, u := range lifeUrls {
			withTimeout(2*time.Second, func() (string, error) {
				b, err := rosmar.OpenBucket(lr.url(n, u), lr.realName(n), rosmar.ReOpenExisting)
				if err == nil {
					_ = b.CloseAndDelete(ctx)
				}
				return "ok", nil
			})
		}
	}
	os.RemoveAll(lr.scratch)
}

// cmdLife: vh life -in behaviours.json -out trace.ndjson -scratch DIR -from i -to j -progress FILE
func cmdLife(args []string) error {
	fs := newFlagSet("life")
	in := fs.String("in", "", "behaviours JSON (array of arrays of actions)")
	out := fs.String("out", "", "trace ndjson")
	scratch := fs.String("scratch", "", "scratch dir")
	from := fs.Int("from", 0, "first behaviour index")
	to := fs.Int("to", -1, "last behaviour index (exclusive)")
	progress := fs.String("progress", "", "progress file (behaviour and step being executed)")
	if err := fs.Parse(args); err != nil {
		return err
	}
	data, err := os.ReadFile(*in)
	if err != nil {
		return err
	}
	var behs [][]LifeAct
	if err := json.Unmarshal(data, &behs); err != nil {
		return err
	}
	if *to < 0 || *to > len(behs) {
		*to = len(behs)
	}
	f, err := os.Create(*out)
	if err != nil {
		return err
	}
	defer f.Close()
	enc := json.NewEncoder(f)
	nlines := 0
	abandoned := 0
	for bi := *from; bi < *to; bi++ {
		lr := &lifeRun{tr: bi + 1, scratch: filepath.Join(*scratch, fmt.Sprintf("life_%d_%d", os.Getpid(), bi)),
			hs: map[string]*rosmar.Bucket{}, fd: map[string]*lifeFeed{}, used: map[string]bool{}}
		os.MkdirAll(lr.scratch, 0755)
		if bi%2 == 1 {
			// every other behaviour finds the bucket directories already there, empty: a directory is not a bucket
			for _, n := range lifeNames {
				for _, u := range []string{"d1", "d2"} {
					os.MkdirAll(strings.TrimPrefix(lr.url(n, u), "rosmar://"), 0755)
				}
			}
		}
		prevN := map[string]int{}
		abandonedNow := false
		// feed goroutines of the previous behaviour end asynchronously after its cleanup: wait for them
		for w := 0; w < 400 && rosmar.VerifActiveFeedCount() != 0; w++ {
			time.Sleep(5 * time.Millisecond)
		}
		baseGor := int(rosmar.VerifActiveFeedCount())
		reset := LifeLine{K: "reset", Tr: bi + 1, Pre: bi%2 == 1, Act: LifeAct{Kind: "-", H: "h1", N: "-", U: "-", Mode: "-", C: "-", F: "-", Fk: "-"}, Res: "ok"}
		lr.observe(&reset, prevN, baseGor)
		enc.Encode(reset)
		nlines++
		for i := range behs[bi] {
			a := behs[bi][i]
			a.ID = i + 1
			lr.maxID = i + 1
			if *progress != "" {
				os.WriteFile(*progress, []byte(fmt.Sprintf("%d %d\n", bi, i+1)), 0644)
			}
			line := LifeLine{K: "act", Tr: bi + 1, I: i + 1, Act: a}
			line.Res, line.Err = lr.exec(&a)
			if a.Kind != "Open" && a.Kind != "StopFeed" {
				lr.used[a.H] = true
			}
			lr.observe(&line, prevN, baseGor)
			enc.Encode(line)
			nlines++
			if line.Res == "hang" || line.Res == "panic" {
				abandoned++
				abandonedNow = true
				break // the bucket may be wedged: abandon this behaviour
			}
		}
		// two more observations after a pause: what is asynchronous (events, done channels, runner goroutines) has
		// had time to happen, and a deviation that is still there is there to stay
		for k := 0; k < 2 && abandonedNow == false; k++ {
			time.Sleep(time.Duration(150-50*k) * time.Millisecond)
			line := LifeLine{K: "act", Tr: bi + 1, I: len(behs[bi]) + 1 + k, Res: "ok",
				Act: LifeAct{Kind: "Settle", H: "h1", N: "-", U: "-", Mode: "-", C: "-", F: "-", Fk: "-", ID: len(behs[bi]) + 1 + k}}
			lr.observe(&line, prevN, baseGor)
			enc.Encode(line)
			nlines++
		}
		lr.cleanup()
	}
	if *progress != "" {
		os.WriteFile(*progress, []byte("done\n"), 0644)
	}
	fmt.Printf("LIFE behaviours=%d lines=%d abandoned=%d\n", *to-*from, nlines, abandoned)
	return nil
}
