package main

// Crash family (C10). The child executes a TLC-generated history on an on-disk bucket, appending one
// SeqTrace-format line per returned call (written and synced before the next call starts) and kills itself
// with SIGKILL at the chosen crash position (operation index, hook site). The checker - a different process,
// which never had the bucket open - re-opens the bucket, records the full projection and the bucket's
// identity, and assembles the trace that SeqTrace's Reopen step validates.

import (
	"bufio"
	"context"
	"database/sql"
	"encoding/json"
	"fmt"
	"os"
	"path/filepath"
	"sort"
	"strconv"
	"strings"
	"syscall"
	"time"

	sgbucket "github.com/couchbase/sg-bucket"
	"github.com/couchbaselabs/rosmar"
)

var rawCasJSON bool // when set, CasRef marshals as the string "c:<raw>" (ranks are assigned by the checker)

type crashMeta struct {
	UUID   string   `json:"uuid"`
	Stores []string `json:"stores"`
	DDocs  []string `json:"ddocs"`
}

func crashCollections(b *rosmar.Bucket) (map[string]*rosmar.Collection, error) {
	colls := map[string]*rosmar.Collection{}
	for _, c := range collNames {
		ds, err := b.NamedDataStore(dsName(c))
		if err != nil {
			return nil, err
		}
		colls[c] = ds.(*rosmar.Collection)
	}
	return colls, nil
}

func bucketMeta(b *rosmar.Bucket, colls map[string]*rosmar.Collection) crashMeta {
	m := crashMeta{Stores: []string{}, DDocs: []string{}}
	m.UUID, _ = b.UUID()
	if names, err := b.ListDataStores(); err == nil {
		for _, n := range names {
			m.Stores = append(m.Stores, n.ScopeName()+"."+n.CollectionName())
		}
	}
	for _, c := range collNames {
		if dd, err := colls[c].GetDDocs(); err == nil {
			for name := range dd {
				m.DDocs = append(m.DDocs, c+"/"+name)
			}
		}
	}
	sort.Strings(m.DDocs)
	return m
}

// cmdCrashChild: vh crashchild -ops FILE -dir DIR -out TRACE -at OPINDEX -site SITE
func cmdCrashChild(args []string) error {
	fs := newFlagSet("crashchild")
	opsFile := fs.String("ops", "", "history JSON (array of ops)")
	dir := fs.String("dir", "", "bucket directory")
	out := fs.String("out", "", "raw trace file")
	at := fs.Int("at", 0, "1-based index of the operation during which to die (0 = never)")
	site := fs.String("site", "", "hook site at which to die")
	late := fs.Int("late", 0, "first write a document that expires in this many seconds (the bucket is re-opened after that)")
	if err := fs.Parse(args); err != nil {
		return err
	}
	data, err := os.ReadFile(*opsFile)
	if err != nil {
		return err
	}
	var ops []GenOp
	if err := json.Unmarshal(data, &ops); err != nil {
		return err
	}
	rawCasJSON = true
	f, err := os.OpenFile(*out, os.O_CREATE|os.O_WRONLY|os.O_TRUNC, 0644)
	if err != nil {
		return err
	}
	w := bufio.NewWriter(f)
	emit := func(v any) {
		b, _ := json.Marshal(v)
		w.Write(b)
		w.WriteByte('\n')
		w.Flush()
		f.Sync()
	}
	b, err := rosmar.OpenBucket("rosmar://"+*dir, "crashb", rosmar.CreateNew)
	if err != nil {
		return err
	}
	colls, err := crashCollections(b)
	if err != nil {
		return err
	}
	for _, c := range collNames {
		if err := colls[c].PutDDoc(context.Background(), "vd", viewDDoc()); err != nil {
			return err
		}
	}
	if *late > 0 {
		if err := colls["c2"].Set("late", uint32(time.Now().Unix())+uint32(*late), nil, []byte(`{"late":1}`)); err != nil {
			return err
		}
	}
	tr := &Trace{}
	info := map[string]*KeyInfo{}
	var maxCas uint64
	known := func(c, k string) *KeyInfo {
		ki := info[c+"/"+k]
		if ki == nil {
			ki = &KeyInfo{}
			info[c+"/"+k] = ki
		}
		return ki
	}
	x := &Ctx{tr: tr, crc: newCrcTable(), exp: newExpTable(), known: known, maxCas: func() uint64 { return maxCas }}
	vdef := map[string]string{}
	x.swapDDoc = func(coll, _ string) error {
		nv := "B"
		if vdef[coll] == "B" {
			nv = "A"
		}
		vdef[coll] = nv
		return colls[coll].PutDDoc(context.Background(), "vd", viewDDocVariant(nv))
	}
	// a first write gives the driver a CAS to derive caller-chosen CAS values from (as the sequential driver's start marker)
	if cas0, err := colls["c0"].WriteCas("~start", 0, 0, []byte(`{"start":1}`), 0); err == nil {
		maxCas = cas0
	}
	meta := bucketMeta(b, colls)
	emit(map[string]any{"k": "meta", "meta": meta, "expbase": x.exp.base})
	startRefs := map[string]*CasRef{}
	for _, c := range collNames {
		startRefs[c] = tr.C(0)
	}
	emit(SeqStep{K: "reset", Tr: 1, Mode: "disk", Coll: "-", Op: "-", A: x.emptyArgs(), R: Res{Cls: "ok", Body: NoBody(), Cas: tr.C(0)},
		Post: []PostDoc{}, Live: []CollEvs{}, Dump: []CollEvs{}, Aux: []AuxObs{}, Start: startRefs, Skiplive: true, P: "-", Shown: []*CasRef{}, Dump2: []Dump2Obs{}, Mlive: []CollEvs{}, Klive: []CollEvs{}})
	emit(map[string]any{"k": "bodies", "table": bodyTableJSON()})
	prevDoc := map[string]string{}
	{
		js, _ := jsonNoRank(x.absentObs())
		for _, c := range collNames {
			for _, k := range pathKeys {
				prevDoc[c+"/"+k] = js
			}
		}
	}
	cur := 0
	rosmar.VerifSetHook(func(s string, a ...any) {
		if cur == *at && s == *site {
			syscall.Kill(os.Getpid(), syscall.SIGKILL)
			select {}
		}
	})
	for i, op := range ops {
		cur = i + 1
		if cur == *at && *site == "op.start" {
			syscall.Kill(os.Getpid(), syscall.SIGKILL)
			select {}
		}
		gop := op
		a, r := x.Exec(colls[op.Coll], b, &gop)
		cur = 0 // observation reads below must not trigger the crash hook
		step := SeqStep{K: "call", Tr: 1, I: i + 1, Mode: "disk", Coll: op.Coll, Op: op.Op, A: a, R: r,
			Post: []PostDoc{}, Live: []CollEvs{}, Dump: []CollEvs{}, Aux: []AuxObs{}, Start: startRefs, Skiplive: true, P: "-", Shown: []*CasRef{}, Dump2: []Dump2Obs{}, Mlive: []CollEvs{}, Klive: []CollEvs{}}
		for _, c := range collNames {
			step.Live = append(step.Live, CollEvs{C: c, Evs: []Ev{}})
			for _, k := range pathKeys {
				d, cc := x.Observe(colls[c], k)
				ki := known(c, k)
				if cc != ki.cur {
					if ki.cur != 0 {
						ki.older = append(ki.older, ki.cur)
					}
					ki.cur = cc
				}
				if cc > maxCas && cc < maxCas+(1<<40) || maxCas == 0 {
					maxCas = cc
				}
				js, _ := jsonNoRank(d)
				if prevDoc[c+"/"+k] != js {
					prevDoc[c+"/"+k] = js
					step.Post = append(step.Post, PostDoc{C: c, K: k, D: d})
				}
			}
		}
		emit(step)
		emit(map[string]any{"k": "bodies", "table": bodyTableJSON()})
		if i+1 == *at && *site == "op.acked" {
			syscall.Kill(os.Getpid(), syscall.SIGKILL)
			select {}
		}
	}
	emit(map[string]any{"k": "bodies", "table": bodyTableJSON()})
	// no clean shutdown: the process just ends (the bucket is never closed)
	os.Exit(0)
	return nil
}

func bodyTableJSON() map[string]json.RawMessage {
	for _, b := range []Body{NoBody(), NoMacro(), UnkBody()} {
		_, _ = json.Marshal(b)
	}
	bodies.mu.Lock()
	defer bodies.mu.Unlock()
	m := map[string]json.RawMessage{}
	for i, js := range bodies.list {
		m[bodies.toks[i]] = js
	}
	return m
}

// cmdCrashCheck: vh crashcheck -ops FILE -dir DIR -raw CHILDTRACE -tr N -at I -site S -out TRACE
// Re-opens the bucket in this (different) process and appends the complete trace of the case to TRACE.
func cmdCrashCheck(args []string) error {
	fs := newFlagSet("crashcheck")
	opsFile := fs.String("ops", "", "history JSON")
	dir := fs.String("dir", "", "bucket directory")
	raw := fs.String("raw", "", "child's raw trace")
	trNo := fs.Int("tr", 1, "trace number")
	at := fs.Int("at", 0, "operation index of the crash")
	site := fs.String("site", "", "crash site")
	out := fs.String("out", "", "output trace (appended)")
	late := fs.Bool("late", false, "the child wrote a document whose expiry has passed by now: it must expire soon after the re-open")
	if err := fs.Parse(args); err != nil {
		return err
	}
	data, err := os.ReadFile(*opsFile)
	if err != nil {
		return err
	}
	var ops []GenOp
	if err := json.Unmarshal(data, &ops); err != nil {
		return err
	}
	// 1. the child's lines; body tokens are re-interned into this process' table (by content)
	var childLines []map[string]any
	var meta crashMeta
	var expbase uint32
	rf, err := os.Open(*raw)
	if err != nil {
		return err
	}
	sc := bufio.NewScanner(rf)
	sc.Buffer(make([]byte, 1<<20), 1<<26)
	var lastBodyTable map[string]json.RawMessage
	for sc.Scan() {
		var m map[string]any
		if json.Unmarshal(sc.Bytes(), &m) != nil {
			continue // a torn last line
		}
		switch m["k"] {
		case "meta":
			mb, _ := json.Marshal(m["meta"])
			json.Unmarshal(mb, &meta)
			expbase = uint32(m["expbase"].(float64))
		case "bodies":
			tb, _ := json.Marshal(m["table"])
			json.Unmarshal(tb, &lastBodyTable)
		default:
			childLines = append(childLines, m)
		}
	}
	rf.Close()
	// The child's body tokens are only meaningful with its table, which it writes at the very end (lost in a crash).
	// So the child's tokens are resolved by re-deriving them: the checker re-interns the same abstract bodies in the same
	// order only if the table survived; otherwise the child lines carry tokens we cannot resolve. To stay independent of that,
	// the child is asked (see python driver) to also run to completion once without a crash; here we require the table.
	acked := 0
	for _, m := range childLines {
		if m["k"] == "call" {
			acked++
		}
	}
	// 2. reopen
	rawCasJSON = true
	tr := &Trace{}
	x := &Ctx{tr: tr, crc: newCrcTable(), exp: &expTable{base: expbase}}
	for _, op := range ops { // make every body the history could have written known to the CRC table
		x.crc.note(ConcreteBody(op.Body))
	}
	line := map[string]any{"k": "reopen", "tr": *trNo, "i": acked + 1, "mode": "disk", "acked": acked, "site": *site, "at": *at}
	// the survivor is re-opened in either of the two modes that open an existing bucket
	mode := rosmar.OpenMode(rosmar.ReOpenExisting)
	if *trNo%2 == 0 {
		mode = rosmar.CreateOrOpen
	}
	b, err := rosmar.OpenBucket("rosmar://"+*dir, "crashb", mode)
	if err != nil {
		line["openerr"] = err.Error()
	} else {
		line["openerr"] = ""
		colls, err := crashCollections(b)
		if err != nil {
			return err
		}
		var post []PostDoc
		anyExp := false
		for _, c := range collNames {
			for _, k := range pathKeys {
				d, _ := x.Observe(colls[c], k)
				post = append(post, PostDoc{C: c, K: k, D: d})
				if d.Exp.Cls == "ok" && d.Exp.Exp != "0" {
					anyExp = true
				}
			}
		}
		line["post"] = post
		m2 := bucketMeta(b, colls)
		line["uuidsame"] = m2.UUID == meta.UUID && meta.UUID != ""
		line["stores"] = m2.Stores
		line["ddocs"] = m2.DDocs
		set, next := rosmar.VerifExpiryState(b)
		line["timerarmed"] = set && next != 0
		line["anyexp"] = anyExp
		line["late"] = *late
		line["lategone"] = false
		if *late {
			// a pending expiration whose deadline passed while nobody had the bucket open is still pending
			deadline := time.Now().Add(4 * time.Second)
			for time.Now().Before(deadline) {
				if ok, err := colls["c2"].Exists("late"); err == nil && !ok {
					line["lategone"] = true
					break
				}
				time.Sleep(50 * time.Millisecond)
			}
		}
		b.Close(context.Background())
		// high-water marks, read directly from the database file
		marks := map[string]*CasRef{"bucket": tr.C(0), "c0": tr.C(0), "c1": tr.C(0), "c2": tr.C(0)}
		if db, err := sql.Open("sqlite3", "file:"+filepath.Join(*dir, "rosmar.sqlite3")+"?mode=ro"); err == nil {
			var v uint64
			if db.QueryRow("SELECT lastCas FROM bucket").Scan(&v) == nil {
				marks["bucket"] = tr.C(v)
			}
			rows, err := db.Query("SELECT scope, name, lastCas FROM collections")
			if err == nil {
				for rows.Next() {
					var sc, nm string
					var lc uint64
					if rows.Scan(&sc, &nm, &lc) == nil {
						for _, c := range collNames {
							if dsName(c).ScopeName() == sc && dsName(c).CollectionName() == nm {
								marks[c] = tr.C(lc)
							}
						}
					}
				}
				rows.Close()
			}
			// a pending expiration need not be readable through the API (GetExpiry does not show a tombstone's): count the rows
			// (not in the overdue cases, where an expiration is meant to run between the re-open and this look)
			var nexp int
			if !*late && db.QueryRow("SELECT COUNT(*) FROM documents WHERE exp > 0").Scan(&nexp) == nil && nexp > 0 {
				line["anyexp"] = true
			}
			db.Close()
		}
		line["marks"] = marks
	}
	// the in-flight operation (the one after the last acknowledged one), with abstract arguments
	if acked < len(ops) {
		op := ops[acked]
		body := ConcreteBody(op.Body)
		a := Args{Key: op.Key, Exp: op.Exp, Pres: op.Pres, Casc: op.Casc, Cas: tr.C(0), Body: AbstractBody(body), HasBody: body != nil, Json: op.Json,
			Opt: op.Opt, Sets: fullSets(op.Sets), Dels: map[string]bool{}, Db: op.Db, Amt: op.Amt, Def: op.Def, Path: op.Path, Val: op.Val, NewCas: tr.C(0), Cb: op.Cb}
		if a.Exp == "" {
			a.Exp = "0"
		}
		if a.Casc == "" {
			a.Casc = "zero"
		}
		if a.Path == "" {
			a.Path = "-"
		}
		for _, n := range XNames {
			a.Dels[n] = false
		}
		for _, d := range op.Dels {
			a.Dels[d] = true
		}
		line["inflight"] = map[string]any{"op": op.Op, "coll": op.Coll, "a": a}
	} else {
		line["inflight"] = map[string]any{"op": "-", "coll": "c0", "a": x.emptyArgs()}
	}
	// 3. assemble: child's lines (body tokens translated through the child's table) + reopen line, with CAS ranks
	reb, _ := json.Marshal(line)
	var reopen map[string]any
	json.Unmarshal(reb, &reopen)
	if lastBodyTable == nil {
		return fmt.Errorf("child trace has no body table")
	}
	// body tokens are content hashes: the child's table only has to be merged into this process' table
	for _, js := range lastBodyTable {
		var b bodyPlain
		json.Unmarshal(js, &b)
		_, _ = json.Marshal(Body(b))
	}
	var all []map[string]any
	for _, m := range childLines {
		m["tr"] = *trNo
		all = append(all, m)
	}
	all = append(all, reopen)
	// ranks over all "c:<raw>" strings
	vals := map[uint64]bool{}
	for _, m := range all {
		collectCas(m, vals)
	}
	sorted := make([]uint64, 0, len(vals))
	for v := range vals {
		if v != 0 {
			sorted = append(sorted, v)
		}
	}
	sort.Slice(sorted, func(i, j int) bool { return sorted[i] < sorted[j] })
	rank := map[uint64]int{0: 0}
	for i, v := range sorted {
		rank[v] = i + 1
	}
	of, err := os.OpenFile(*out, os.O_CREATE|os.O_WRONLY|os.O_APPEND, 0644)
	if err != nil {
		return err
	}
	defer of.Close()
	for _, m := range all {
		js, _ := json.Marshal(replaceCas(m, rank))
		of.Write(js)
		of.Write([]byte("\n"))
	}
	return WriteBodyTable(*out + ".bodies.json")
}

func collectCas(v any, out map[uint64]bool) {
	switch t := v.(type) {
	case map[string]any:
		for _, x := range t {
			collectCas(x, out)
		}
	case []any:
		for _, x := range t {
			collectCas(x, out)
		}
	case string:
		if strings.HasPrefix(t, "c:") {
			if n, err := strconv.ParseUint(t[2:], 10, 64); err == nil {
				out[n] = true
			}
		}
	}
}

func replaceCas(v any, rank map[uint64]int) any {
	switch t := v.(type) {
	case map[string]any:
		for k, x := range t {
			t[k] = replaceCas(x, rank)
		}
		return t
	case []any:
		for i, x := range t {
			t[i] = replaceCas(x, rank)
		}
		return t
	case string:
		if strings.HasPrefix(t, "c:") {
			if n, err := strconv.ParseUint(t[2:], 10, 64); err == nil {
				return rank[n]
			}
		}
	}
	return v
}

var _ sgbucket.FeedOpcode
