package main

// Shutdown / concurrent open driver (C20, C13): one scenario (a set of processes from RosmarShutdown) and one
// schedule (sequence of process names) per invocation, in its own OS process, because the failures looked for
// include process-level panics and permanently blocked goroutines.

import (
	"context"
	"encoding/json"
	"fmt"
	"os"
	"path/filepath"
	"sort"
	"strings"
	"time"

	"github.com/couchbaselabs/rosmar"
)

type ShutCase struct {
	Procs []string `json:"procs"`
	Sched []string `json:"sched"`
}
type ShutLine struct {
	K       string            `json:"k"`
	Tr      int               `json:"tr"`
	Scen    string            `json:"scen"`
	Outcome string            `json:"outcome"` // ok | deadlock
	Stuck   []string          `json:"stuck"`
	Res     map[string]string `json:"res"`
	Other   string            `json:"other"` // probe: open+write+close of an unrelated bucket afterwards
	Names   string            `json:"names"` // probe: GetBucketNames returns
	H1      string            `json:"h1"`    // open scenarios: first handle usable
	H2      string            `json:"h2"`    // second handle usable after the first was closed
	Count   int               `json:"count"` // registry count while both are open
	Feeds   int               `json:"feeds"` // feed goroutines running afterwards
	WGone   string            `json:"wgone"` // timer+writer: the writer's document (expiring in a second) was expired: gone | still | -
}

func probeHandle(b *rosmar.Bucket) string {
	if b == nil {
		return "none"
	}
	cls, _ := withTimeout(2*time.Second, func() (string, error) {
		ds := b.DefaultDataStore()
		if ds == nil {
			return "closed", nil
		}
		if _, _, err := ds.GetRaw("doc"); err != nil {
			return classify(err), err
		}
		return "ok", nil
	})
	return cls
}

func cmdShut(args []string) error {
	fs := newFlagSet("shut")
	caseJSON := fs.String("case", "", "case JSON")
	trNo := fs.Int("tr", 1, "trace number")
	scratch := fs.String("scratch", "", "scratch dir")
	if err := fs.Parse(args); err != nil {
		return err
	}
	var sc ShutCase
	if err := json.Unmarshal([]byte(*caseJSON), &sc); err != nil {
		return err
	}
	ctx := context.Background()
	sort.Strings(sc.Procs)
	line := ShutLine{K: "shut", Tr: *trNo, Scen: strings.Join(sc.Procs, "+"), Outcome: "ok", Stuck: []string{}, Res: map[string]string{},
		Other: "-", Names: "-", H1: "-", H2: "-", WGone: "-"}
	has := func(p string) bool {
		for _, x := range sc.Procs {
			if x == p {
				return true
			}
		}
		return false
	}
	name := fmt.Sprintf("shut_%d", os.Getpid())
	dir := filepath.Join(*scratch, name)
	url := "rosmar://" + dir
	defer os.RemoveAll(dir)
	b, err := rosmar.OpenBucket(url, name, rosmar.CreateNew)
	if err != nil {
		return err
	}
	c := b.DefaultDataStore()
	if err := c.SetRaw("doc", 0, nil, []byte("d")); err != nil {
		return err
	}
	ctl := NewController()
	ctl.enabled = map[string]bool{"op.start": true, "post.before": true, "exp.fire": true, "exp.locked": true, "exp.done": true,
		"closedelete.enter": true, "closedelete.locked": true, "close.unregistered": true, "open.cachemiss": true, "open.beforeregister": true, "view.updateafter": true}
	if has("ddoc") {
		ctl.enabled["txn.enter"] = true // the design-document writer stops once more before it asks for the bucket mutex
	}
	ctl.BlockTimeout = 40 * time.Millisecond
	opening := has("open1") || has("open2")
	var pendAt time.Time
	if opening {
		// the bucket holds a pending expiration: every open arms a timer for it, and none of them may outlive the store
		pendAt = time.Now().Add(2 * time.Second)
		if err := c.SetRaw("pend", uint32(pendAt.Unix()), nil, []byte("p")); err != nil {
			return err
		}
	}
	if opening && !has("closelast") {
		b.Close(ctx) // the bucket exists on disk but is not registered
	}
	ctl.Install()
	defer ctl.Remove()
	if has("timer") {
		// a document that expires in about a second arms the timer; wait for the callback to park at its first gate
		if err := c.SetRaw("exp", uint32(time.Now().Unix())+1, nil, []byte("e")); err != nil {
			return err
		}
		if _, _, ok := ctl.WaitParked("timer", 4*time.Second); !ok {
			return fmt.Errorf("expiry timer did not fire")
		}
	}
	if has("viewbg") {
		// a view query with stale=updateAfter on a stale index starts a background update; it parks at its gate
		coll := c.(*rosmar.Collection)
		if err := coll.PutDDoc(ctx, "vd", viewDDoc()); err != nil {
			return err
		}
		if _, err := coll.View(ctx, "vd", "v", map[string]any{"stale": "updateAfter"}); err != nil {
			return err
		}
		if _, _, ok := ctl.WaitParked("viewbg", 3*time.Second); !ok {
			return fmt.Errorf("background view update did not start")
		}
	}
	var h1, h2 *rosmar.Bucket
	setRes := func(p, r string) { ctl.mu.Lock(); line.Res[p] = r; ctl.mu.Unlock() }
	for _, p := range sc.Procs {
		p := p
		if p == "timer" || p == "viewbg" {
			continue
		}
		ctl.Spawn(p, func() {
			ctl.Gate("op.start", p)
			defer func() {
				if r := recover(); r != nil {
					setRes(p, "panic: "+fmt.Sprint(r))
				}
			}()
			switch p {
			case "cad":
				setRes(p, classify(b.CloseAndDelete(ctx)))
			case "closelast":
				b.Close(ctx)
				setRes(p, "ok")
			case "ddoc":
				setRes(p, classify(c.(*rosmar.Collection).PutDDoc(ctx, "vd2", viewDDoc())))
			case "writer":
				// the first expiry of the bucket: the timer is armed after the event has been posted
				setRes(p, classify(c.SetRaw("w", uint32(time.Now().Unix())+1, nil, []byte("w"))))
			case "open1":
				var err error
				h1, err = rosmar.OpenBucket(url, name, rosmar.ReOpenExisting)
				setRes(p, classifyOpen(err))
			case "open2":
				var err error
				h2, err = rosmar.OpenBucket(url, name, rosmar.ReOpenExisting)
				setRes(p, classifyOpen(err))
			}
		})
		if _, _, ok := ctl.WaitParked(p, 3*time.Second); !ok {
			return fmt.Errorf("process %s did not reach its first gate", p)
		}
	}
	step := func(nm string) {
		if isBackground(nm) {
			ctl.WaitParked(nm, 40*time.Millisecond)
		}
		if site, done, known := ctl.State(nm); known && !done && site != "" {
			ctl.Step(nm)
		}
	}
	for _, nm := range sc.Sched {
		step(nm)
	}
	// run what is left; a process that neither parks nor finishes is blocked
	deadline := time.Now().Add(5 * time.Second)
	for {
		ps := ctl.Parked()
		sort.Strings(ps)
		for _, nm := range ps {
			step(nm)
		}
		all := true
		for _, p := range sc.Procs {
			if p == "timer" || p == "viewbg" {
				continue
			}
			if _, done, _ := ctl.State(p); !done {
				all = false
			}
		}
		if all && len(ctl.Parked()) == 0 {
			break
		}
		if time.Now().After(deadline) {
			line.Outcome = "deadlock"
			for _, p := range sc.Procs {
				if _, done, _ := ctl.State(p); !done && p != "timer" && p != "viewbg" {
					line.Stuck = append(line.Stuck, p)
				}
			}
			break
		}
		time.Sleep(2 * time.Millisecond)
	}
	ctl.FreeRun()
	time.Sleep(30 * time.Millisecond)
	ctl.ReleaseParked()
	// probes
	line.Names, _ = withTimeout(2*time.Second, func() (string, error) { _ = rosmar.GetBucketNames(); return "ok", nil })
	line.Other, _ = withTimeout(3*time.Second, func() (string, error) {
		ob, err := rosmar.OpenBucket(rosmar.InMemoryURL, name+"_other", rosmar.CreateNew)
		if err != nil {
			return classifyOpen(err), err
		}
		if err := ob.DefaultDataStore().SetRaw("x", 0, nil, []byte("x")); err != nil {
			return classify(err), err
		}
		return classify(ob.CloseAndDelete(ctx)), nil
	})
	if opening && line.Outcome == "ok" {
		counts, _ := rosmar.VerifRegistrySnapshot()
		line.Count = int(counts[name])
		line.H1 = probeHandle(h1)
		if h1 != nil {
			h1.Close(ctx)
		}
		line.H2 = probeHandle(h2)
		if h2 != nil {
			h2.Close(ctx)
		}
	}
	line.Feeds = int(rosmar.VerifActiveFeedCount())
	if has("writer") {
		// a timer armed by the writer after the store was shut down would fire now (and panic the process)
		time.Sleep(2200 * time.Millisecond)
	}
	if has("writer") && has("timer") && len(sc.Procs) == 2 && line.Res["writer"] == "ok" {
		// the bucket stays open: the deadline the writer introduced while the timer callback was running must be honoured
		line.WGone = "still"
		deadline := time.Now().Add(3 * time.Second)
		for time.Now().Before(deadline) {
			if _, _, err := c.GetRaw("w"); err != nil {
				line.WGone = "gone"
				break
			}
			time.Sleep(50 * time.Millisecond)
		}
	}
	if opening {
		// ... and so would a timer armed by an opener that lost the race for the registration
		if d := time.Until(pendAt.Add(1500 * time.Millisecond)); d > 0 {
			time.Sleep(d)
		}
	}
	js, _ := json.Marshal(line)
	fmt.Println("SHUT " + string(js))
	os.Exit(0) // do not wait for goroutines that may be blocked for good
	return nil
}
