package main

// Data abstraction: concrete bytes <-> the small token vocabulary of the TLA+ specification.
// Nothing in this file decides a property; it only maps values to tokens, preserving equality
// (bodies, xattr values, expiries) and order (CAS ranks, computed in trace.go).

import (
	"crypto/sha1"
	"encoding/binary"
	"encoding/hex"
	"encoding/json"
	"fmt"
	"hash/crc32"
	"os"
	"sort"
	"strconv"
	"strings"
	"sync"
	"time"
)

// XNames are the xattr names used by all drivers. Names starting with '_' are system xattrs.
var XNames = []string{"_s", "_t", "u"}

// Leaves of object bodies (top-level props v, a, n; n may be an object with child x).
var Leaves = []string{"v", "a", "n", "n.x"}

// Body is the abstract body. K: none | obj | num | raw | unk.
type Body struct {
	K string            `json:"k"`
	O map[string]string `json:"o"`
	R []string          `json:"r"`
	N int               `json:"n"`
}

// Bodies are written to traces as interned tokens ("b0", "b1", ...); the table token -> abstract
// body is written next to the trace and loaded by the trace specification (BodyTab).
type bodyInterner struct {
	mu   sync.Mutex
	ids  map[string]string
	list []json.RawMessage
	toks []string
}

var bodies = &bodyInterner{ids: map[string]string{}}

type bodyPlain Body

func (b Body) MarshalJSON() ([]byte, error) {
	if b.O == nil {
		b.O = dashLeaves()
	}
	if b.R == nil {
		b.R = []string{}
	}
	js, err := json.Marshal(bodyPlain(b))
	if err != nil {
		return nil, err
	}
	bodies.mu.Lock()
	defer bodies.mu.Unlock()
	id, ok := bodies.ids[string(js)]
	if !ok {
		// tokens are content hashes, so every process uses the same token for the same body
		// (b0 = no body and b1 = no macro are fixed: the trace specification names them)
		switch b.K {
		case "none":
			id = "b0"
		case "nomacro":
			id = "b1"
		default:
			sum := sha1.Sum(js)
			id = "b" + hex.EncodeToString(sum[:6])
		}
		bodies.ids[string(js)] = id
		bodies.list = append(bodies.list, js)
		bodies.toks = append(bodies.toks, id)
	}
	return json.Marshal(id)
}

// WriteBodyTable writes {"b0": {...}, ...} (always containing none / nomacro / unk).
func WriteBodyTable(path string) error {
	for _, b := range []Body{NoBody(), NoMacro(), UnkBody()} {
		_, _ = json.Marshal(b)
	}
	bodies.mu.Lock()
	defer bodies.mu.Unlock()
	m := map[string]json.RawMessage{}
	for i, js := range bodies.list {
		m[bodies.toks[i]] = js
	}
	out, _ := json.Marshal(m)
	return os.WriteFile(path, out, 0644)
}

func dashLeaves() map[string]string {
	m := map[string]string{}
	for _, l := range Leaves {
		m[l] = "-"
	}
	return m
}

func NoBody() Body  { return Body{K: "none", O: dashLeaves(), R: []string{}, N: 0} }
func NoMacro() Body { return Body{K: "nomacro", O: dashLeaves(), R: []string{}, N: 0} }
func UnkBody() Body { return Body{K: "unk", O: dashLeaves(), R: []string{}, N: 0} }

// AbstractBody maps body bytes to the abstract body (nil => none).
func AbstractBody(b []byte) Body {
	if b == nil {
		return NoBody()
	}
	if len(b) == 0 {
		return Body{K: "raw", O: dashLeaves(), R: []string{}, N: 0} // a body of length zero is a body
	}
	s := string(b)
	if len(s) > 0 && s[0] == '{' {
		var m map[string]any
		if json.Unmarshal(b, &m) == nil {
			o := dashLeaves()
			ok := true
			for k, v := range m {
				switch k {
				case "v", "a":
					if sv, isS := v.(string); isS && sv != "-" && sv != "{}" {
						o[k] = sv
					} else {
						ok = false
					}
				case "n":
					switch nv := v.(type) {
					case nil:
						o["n"] = "null" // an explicit JSON null
					case string:
						if nv == "-" || nv == "{}" {
							ok = false
						}
						o["n"] = nv
					case map[string]any:
						o["n"] = "{}"
						for ck, cv := range nv {
							if sv, isS := cv.(string); ck == "x" && isS && sv != "-" {
								o["n.x"] = sv
							} else {
								ok = false
							}
						}
					default:
						ok = false
					}
				default:
					ok = false
				}
			}
			if ok {
				return Body{K: "obj", O: o, R: []string{}, N: 0}
			}
		}
		return UnkBody()
	}
	if n, err := strconv.ParseUint(s, 10, 31); err == nil && strconv.FormatUint(n, 10) == s {
		return Body{K: "num", O: dashLeaves(), R: []string{}, N: int(n)}
	}
	if strings.HasSuffix(s, ";") {
		parts := strings.Split(strings.TrimSuffix(s, ";"), ";")
		ok := true
		for _, p := range parts {
			if len(p) != 2 || p[0] != 'R' {
				ok = false
			}
		}
		if ok {
			return Body{K: "raw", O: dashLeaves(), R: parts, N: 0}
		}
	}
	return UnkBody()
}

// ConcreteBody maps a body token of a generated operation to bytes.
// Tokens: J1 J2 J3 (JSON objects), R1 R2 (raw), N<k> (number), "" / "nil" (no body).
func ConcreteBody(tok string) []byte {
	switch tok {
	case "", "nil":
		return nil
	case "J1":
		return []byte(`{"v":"J1"}`)
	case "J2":
		return []byte(`{"a":"s1","v":"J2"}`)
	case "J3":
		return []byte(`{"n":{"x":"s2"},"v":"J3"}`)
	case "J4":
		return []byte(`{"n":null,"v":"J4"}`)
	case "R0":
		return []byte{} // present, of length zero
	case "R1":
		return []byte("R1;")
	case "R2":
		return []byte("R2;")
	case "JB": // a JSON object larger than the document size limit the sequential driver sets
		return []byte(`{"a":"` + strings.Repeat("B", 700) + `","v":"JB"}`)
	}
	if strings.HasPrefix(tok, "N") {
		return []byte(tok[1:])
	}
	panic("unknown body token " + tok)
}

func crc32cHex(data []byte) string {
	return fmt.Sprintf("0x%08x", crc32.Checksum(data, crc32.MakeTable(crc32.Castagnoli)))
}

// XArg is an xattr value argument: token T plus requested macro expansions.
type XArg struct {
	T  string `json:"t"`  // x1 | x2 | "-" (not named)
	MC bool   `json:"mc"` // expand CAS macro into .c
	MH bool   `json:"mh"` // expand CRC32c macro into .h
}

func ConcreteXattr(a XArg) []byte {
	switch a.T {
	case "xbad":
		return []byte(`{"t":`) // not JSON
	case "xbig":
		return []byte(fmt.Sprintf(`{"t":%q}`, strings.Repeat("X", 700)))
	}
	return []byte(fmt.Sprintf(`{"t":%q}`, a.T))
}

// XVal is the abstract stored xattr value. T "-" = absent. Cas: raw value decoded from the
// expanded macro (0 = none); Crc: body whose checksum the expanded macro equals (nomacro = none).
type XVal struct {
	T      string `json:"t"`
	Cas    int    `json:"cas"`
	Crc    Body   `json:"crc"`
	rawCas uint64
}

func NoX() XVal { return XVal{T: "-", Cas: 0, Crc: NoMacro()} }

// crcTable remembers the checksum of every body the driver has sent or seen.
type crcTable struct{ m map[string]Body }

func newCrcTable() *crcTable {
	t := &crcTable{m: map[string]Body{}}
	t.note(nil)
	return t
}
func (t *crcTable) note(b []byte) {
	if len(b) == 0 && b != nil {
		return // same checksum as "no body", which is what the table says for it
	}
	t.m[crc32cHex(b)] = AbstractBody(b)
}

// AbstractXattr decodes one stored xattr value.
func (t *crcTable) AbstractXattr(raw []byte) XVal {
	var m map[string]any
	if err := json.Unmarshal(raw, &m); err != nil {
		return XVal{T: "?", Crc: NoMacro()}
	}
	xv := NoX()
	xv.T = "?"
	for k, v := range m {
		s, isS := v.(string)
		if !isS {
			return XVal{T: "?", Crc: NoMacro()}
		}
		switch k {
		case "t":
			xv.T = s
		case "c":
			// "0x" + 16 hex digits, little endian
			var bs []byte
			if _, err := fmt.Sscanf(s, "0x%x", &bs); err == nil && len(bs) == 8 {
				xv.rawCas = binary.LittleEndian.Uint64(bs)
			} else {
				xv.rawCas = 1 // unparseable: a value that was never issued
			}
		case "h":
			if b, ok := t.m[s]; ok {
				xv.Crc = b
			} else {
				xv.Crc = UnkBody()
			}
		default:
			return XVal{T: "?", Crc: NoMacro()}
		}
	}
	return xv
}

// Expiry tokens. E1<E2 are absolute; R1 is relative (offset), stored as call time + offset.
type expTable struct {
	base uint32
}

const relOffset1 = 100000

func newExpTable() *expTable { return &expTable{base: uint32(time.Now().Unix())} }

func (e *expTable) Concrete(tok string) uint32 {
	switch tok {
	case "0", "":
		return 0
	case "E1":
		return e.base + 40*86400
	case "E2":
		return e.base + 50*86400
	case "R1":
		return relOffset1
	}
	panic("unknown exp token " + tok)
}

func (e *expTable) Abstract(v uint32) string {
	switch {
	case v == 0:
		return "0"
	case v == e.base+40*86400:
		return "E1"
	case v == e.base+50*86400:
		return "E2"
	}
	now := uint32(time.Now().Unix())
	if v >= e.base+relOffset1-5 && v <= now+relOffset1+5 {
		return "R1"
	}
	return "?" + strconv.FormatUint(uint64(v), 10)
}

func sortedKeys[V any](m map[string]V) []string {
	ks := make([]string, 0, len(m))
	for k := range m {
		ks = append(ks, k)
	}
	sort.Strings(ks)
	return ks
}
