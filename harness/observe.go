package main

import (
	"context"
	"encoding/json"
	"fmt"
	"strconv"
	"strings"
	"sync"
	"time"

	sgbucket "github.com/couchbase/sg-bucket"
	"github.com/couchbaselabs/rosmar"
)

// DocObs is what every read API says about one key (the projection of one document).
type DocObs struct {
	Raw RawObs `json:"raw"`
	Ex  bool   `json:"ex"`
	Exp ExpObs `json:"exp"`
	Gwx GwxObs `json:"gwx"`
	Gx  GxObs  `json:"gx"`
}
type RawObs struct {
	Cls  string  `json:"cls"`
	Body Body    `json:"body"`
	Cas  *CasRef `json:"cas"`
}
type ExpObs struct {
	Cls string `json:"cls"`
	Exp string `json:"exp"`
}
type GwxObs struct {
	Cls  string          `json:"cls"`
	Body Body            `json:"body"`
	Xa   map[string]XOut `json:"xa"`
	Cas  *CasRef         `json:"cas"`
}
type GxObs struct {
	Cls string          `json:"cls"`
	Xa  map[string]XOut `json:"xa"`
	Cas *CasRef         `json:"cas"`
	Rev int             `json:"rev"`  // $document.revid
	Rv2 int             `json:"rev2"` // revid inside $document
	Crc Body            `json:"crc"`  // body whose checksum $document.value_crc32c equals
}

// XOut is an abstract xattr value with its CAS as a rank reference.
type XOut struct {
	T   string  `json:"t"`
	Cas *CasRef `json:"cas"`
	Crc Body    `json:"crc"`
}

func (x *Ctx) xout(v XVal) XOut { return XOut{T: v.T, Cas: x.tr.C(v.rawCas), Crc: v.Crc} }

func (x *Ctx) absXattrs(m map[string][]byte) map[string]XOut {
	out := map[string]XOut{}
	for _, n := range XNames {
		if raw, ok := m[n]; ok {
			out[n] = x.xout(x.crc.AbstractXattr(raw))
		} else {
			out[n] = x.xout(NoX())
		}
	}
	return out
}

var allXattrNames = append(append([]string{}, XNames...), "$document", "$document.revid")

// Observe reads one key through every read API.
func (x *Ctx) Observe(c *rosmar.Collection, key string) (d DocObs, curCas uint64) {
	ctx := context.Background()
	raw, cas, err := c.GetRaw(key)
	x.crc.note(raw)
	d.Raw = RawObs{Cls: classify(err), Body: AbstractBody(raw), Cas: x.tr.C(cas)}
	if err != nil {
		d.Raw.Body = NoBody()
	}
	ex, err := c.Exists(key)
	d.Ex = ex && err == nil
	e, err := c.GetExpiry(ctx, key)
	d.Exp = ExpObs{Cls: classify(err), Exp: x.exp.Abstract(e)}
	if err != nil {
		d.Exp.Exp = "0"
	}
	body, xa, cas2, err := c.GetWithXattrs(ctx, key, XNames)
	d.Gwx = GwxObs{Cls: classify(err), Body: AbstractBody(body), Xa: x.absXattrs(xa), Cas: x.tr.C(cas2)}
	xa2, cas3, err := c.GetXattrs(ctx, key, allXattrNames)
	d.Gx = GxObs{Cls: classify(err), Xa: x.absXattrs(xa2), Cas: x.tr.C(cas3), Crc: NoMacro()}
	if err == nil {
		curCas = cas3
		if rv, ok := xa2["$document.revid"]; ok {
			var s string
			if json.Unmarshal(rv, &s) == nil {
				d.Gx.Rev, _ = strconv.Atoi(s)
			}
		}
		if dv, ok := xa2["$document"]; ok {
			var m map[string]string
			if json.Unmarshal(dv, &m) == nil {
				d.Gx.Rv2, _ = strconv.Atoi(m["revid"])
				if b, ok := x.crc.m[m["value_crc32c"]]; ok {
					d.Gx.Crc = b
				} else {
					d.Gx.Crc = UnkBody()
				}
			}
		}
	}
	return
}

// Ev is an abstracted feed event.
type Ev struct {
	Op   string          `json:"op"` // mut | del | begin | end
	Key  string          `json:"key"`
	Body Body            `json:"body"`
	Xa   map[string]XOut `json:"xa"`
	Json bool            `json:"json"`
	Xf   bool            `json:"xf"`
	Cas  *CasRef         `json:"cas"`
	Exp  string          `json:"exp"`
	Rev  int             `json:"rev"`
	Coll int             `json:"coll"`
}

func (x *Ctx) absEvent(e *sgbucket.FeedEvent, absKey func(string) string) Ev {
	ev := Ev{Key: absKey(string(e.Key)), Body: NoBody(), Xa: x.absXattrs(nil), Cas: x.tr.C(e.Cas),
		Exp: x.exp.Abstract(e.Expiry), Rev: int(e.RevNo), Coll: int(e.CollectionID),
		Json: e.DataType&sgbucket.FeedDataTypeJSON != 0, Xf: e.DataType&sgbucket.FeedDataTypeXattr != 0}
	switch e.Opcode {
	case sgbucket.FeedOpMutation:
		ev.Op = "mut"
	case sgbucket.FeedOpDeletion:
		ev.Op = "del"
	case sgbucket.FeedOpBeginBackfill:
		ev.Op = "begin"
		return ev
	case sgbucket.FeedOpEndBackfill:
		ev.Op = "end"
		return ev
	default:
		ev.Op = fmt.Sprintf("op%d", e.Opcode)
	}
	body := e.Value
	if ev.Xf {
		b, xs, err := sgbucket.DecodeValueWithAllXattrs(e.Value)
		if err != nil {
			ev.Body = UnkBody()
			return ev
		}
		body = b
		ev.Xa = x.absXattrs(xs)
	}
	if len(body) == 0 {
		// a deletion carries no body; a mutation whose value has length zero carries an empty one
		if ev.Op == "mut" && (ev.Xf || e.Value != nil) {
			body = []byte{}
		} else {
			body = nil // (also a keys-only feed's event, whose value is nil)
		}
	}
	x.crc.note(body)
	ev.Body = AbstractBody(body)
	return ev
}

// feedBuf collects raw events of one live feed.
type feedBuf struct {
	mu   sync.Mutex
	cond *sync.Cond
	evs  []sgbucket.FeedEvent
	term chan bool
	done chan struct{}
}

func newFeedBuf() *feedBuf {
	f := &feedBuf{term: make(chan bool), done: make(chan struct{})}
	f.cond = sync.NewCond(&f.mu)
	return f
}

func (f *feedBuf) callback(e sgbucket.FeedEvent) bool {
	f.mu.Lock()
	f.evs = append(f.evs, e)
	f.cond.Broadcast()
	f.mu.Unlock()
	return true
}

// drainUntil waits until an event with the marker key and value arrives; returns everything before it.
func (f *feedBuf) drainUntil(markerKey string, markerVal []byte, timeout time.Duration) ([]sgbucket.FeedEvent, error) {
	deadline := time.Now().Add(timeout)
	timer := time.AfterFunc(timeout, func() { f.mu.Lock(); f.cond.Broadcast(); f.mu.Unlock() })
	defer timer.Stop()
	f.mu.Lock()
	defer f.mu.Unlock()
	for {
		for i, e := range f.evs {
			// an event of the marker key that arrives without a value still ends the batch: whether the feed
			// should have carried the value is judged on the batch, not here
			if string(e.Key) == markerKey && (len(e.Value) == 0 || strings.Contains(string(e.Value), string(markerVal))) {
				out := append([]sgbucket.FeedEvent{}, f.evs[:i]...)
				f.evs = append([]sgbucket.FeedEvent{}, f.evs[i+1:]...)
				return out, nil
			}
		}
		if time.Now().After(deadline) {
			return nil, fmt.Errorf("marker event %s not delivered within %s", markerVal, timeout)
		}
		f.cond.Wait()
	}
}

// drainUntilKey is drainUntil for feeds whose events carry no value: the n-th marker event (by count) ends the batch.
func (f *feedBuf) drainUntilKey(markerKey string, timeout time.Duration, n int) ([]sgbucket.FeedEvent, error) {
	deadline := time.Now().Add(timeout)
	timer := time.AfterFunc(timeout, func() { f.mu.Lock(); f.cond.Broadcast(); f.mu.Unlock() })
	defer timer.Stop()
	f.mu.Lock()
	defer f.mu.Unlock()
	for {
		for i, e := range f.evs {
			if string(e.Key) == markerKey {
				out := append([]sgbucket.FeedEvent{}, f.evs[:i]...)
				f.evs = append([]sgbucket.FeedEvent{}, f.evs[i+1:]...)
				return out, nil
			}
		}
		if time.Now().After(deadline) {
			return nil, fmt.Errorf("marker event %d not delivered within %s", n, timeout)
		}
		f.cond.Wait()
	}
}

// dumpFeed runs a Dump feed with backfill from startCas and returns all its events.
func dumpFeed(c *rosmar.Collection, startCas uint64, keysOnly bool) ([]sgbucket.FeedEvent, error) {
	return dumpFeedCkpt(c, startCas, keysOnly, "")
}

// dumpFeedCkpt: the same, for a feed that keeps a checkpoint document (written when the dump ends). The start CAS is given
// explicitly, so what an earlier run of the same feed left in its checkpoint has no bearing on what must be delivered.
func dumpFeedCkpt(c *rosmar.Collection, startCas uint64, keysOnly bool, ckptPrefix string) ([]sgbucket.FeedEvent, error) {
	var mu sync.Mutex
	var evs []sgbucket.FeedEvent
	done := make(chan struct{})
	args := sgbucket.FeedArguments{ID: "dump", Backfill: startCas, Dump: true, KeysOnly: keysOnly, DoneChan: done, CheckpointPrefix: ckptPrefix}
	err := c.StartDCPFeed(context.Background(), args, func(e sgbucket.FeedEvent) bool {
		mu.Lock()
		evs = append(evs, e)
		mu.Unlock()
		return true
	}, nil)
	if err != nil {
		return nil, err
	}
	select {
	case <-done:
	case <-time.After(10 * time.Second):
		return nil, fmt.Errorf("dump feed did not finish")
	}
	mu.Lock()
	defer mu.Unlock()
	return evs, nil
}
