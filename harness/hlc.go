package main

// HLC driver (C04): TLC-generated scripts of clock readings (standing still, jumping back), writes through
// rotating entry points on an in-memory and an on-disk bucket, simulated process restarts (all handles
// closed, the global clock's memory cleared) and re-opens; then a burst of concurrent writers.

import (
	"context"
	"encoding/json"
	"fmt"
	"os"
	"path/filepath"
	"sync"
	"sync/atomic"
	"time"

	sgbucket "github.com/couchbase/sg-bucket"
	"github.com/couchbaselabs/rosmar"
)

type HLCAct struct {
	Kind string `json:"kind"`
	B    string `json:"b"`
	V    int    `json:"v"`
}
type HLCLine struct {
	K       string             `json:"k"`
	Kind    string             `json:"kind"`
	Tr      int                `json:"tr"`
	I       int                `json:"i"`
	Mode    string             `json:"mode"`
	B       string             `json:"b"`
	Op      string             `json:"op"`
	Res     string             `json:"res"`
	Cas     int64              `json:"cas"`
	ReadCas int64              `json:"readcas"`
	EvCas   int64              `json:"evcas"`
	V       int                `json:"v"`
	Vals    map[string][]int64 `json:"vals"`
}

type hlcBucket struct {
	b    *rosmar.Bucket
	c    *rosmar.Collection
	mu   sync.Mutex
	evs  map[string]uint64
	term chan bool
}

func (hb *hlcBucket) start() error {
	hb.c = hb.b.DefaultDataStore().(*rosmar.Collection)
	hb.evs = map[string]uint64{}
	hb.term = make(chan bool)
	return hb.c.StartDCPFeed(context.Background(), sgbucket.FeedArguments{ID: "hlc", Backfill: sgbucket.FeedNoBackfill, Terminator: hb.term},
		func(e sgbucket.FeedEvent) bool {
			hb.mu.Lock()
			hb.evs[string(e.Key)] = e.Cas
			hb.mu.Unlock()
			return true
		}, nil)
}

func (hb *hlcBucket) eventCas(key string) uint64 {
	deadline := time.Now().Add(2 * time.Second)
	for time.Now().Before(deadline) {
		hb.mu.Lock()
		v, ok := hb.evs[key]
		delete(hb.evs, key)
		hb.mu.Unlock()
		if ok {
			return v
		}
		time.Sleep(200 * time.Microsecond)
	}
	return 0
}

func runHLCScript(trNo int, scratch string, acts []HLCAct) ([]HLCLine, error) {
	ctx := context.Background()
	var phys uint64 = 1 << 16
	rosmar.VerifSetGlobalClock(func() uint64 { return atomic.LoadUint64(&phys) })
	defer rosmar.VerifSetGlobalClock(nil)
	rosmar.VerifResetGlobalHLC()
	names := map[string]string{"m": fmt.Sprintf("hlcm_%d_%d", os.Getpid(), trNo), "d": fmt.Sprintf("hlcd_%d_%d", os.Getpid(), trNo)}
	urls := map[string]string{"m": rosmar.InMemoryURL, "d": "rosmar://" + filepath.Join(scratch, names["d"])}
	bs := map[string]*hlcBucket{}
	open := func(b string, mode rosmar.OpenMode) error {
		bk, err := rosmar.OpenBucket(urls[b], names[b], mode)
		if err != nil {
			return err
		}
		bs[b] = &hlcBucket{b: bk}
		return bs[b].start()
	}
	for _, b := range []string{"m", "d"} {
		if err := open(b, rosmar.CreateNew); err != nil {
			return nil, err
		}
	}
	defer func() {
		for _, hb := range bs {
			if hb != nil {
				func() { defer func() { _ = recover() }(); close(hb.term) }()
				_ = hb.b.CloseAndDelete(ctx)
			}
		}
		os.RemoveAll(filepath.Join(scratch, names["d"]))
	}()
	lines := []HLCLine{{K: "line", Kind: "reset", Tr: trNo, Mode: "hlc", Vals: map[string][]int64{"m": {}, "d": {}}}}
	nwrite, nmeta := 0, 0
	lastIssued := map[string]uint64{}
	write := func(hb *hlcBucket, n int, inC1 bool) (op string, key string, casOut uint64, err error) {
		c := hb.c
		if inC1 {
			ds, derr := hb.b.NamedDataStore(dsName("c1"))
			if derr != nil {
				return "open-c1", "", 0, derr
			}
			c = ds.(*rosmar.Collection)
		}
		key = fmt.Sprintf("w%d", n)
		defer func() {
			if p := recover(); p != nil {
				err = fmt.Errorf("panic: %v", p)
			}
		}()
		switch n % 8 {
		case 0:
			op = "Set"
			err = c.Set(key, 0, nil, []byte(`{"v":1}`))
		case 1:
			op = "WriteCas"
			casOut, err = c.WriteCas(key, 0, 0, []byte(`{"v":2}`), 0)
		case 2:
			op = "Incr"
			_, err = c.Incr(key, 1, 1, 0)
		case 3:
			op = "Update"
			casOut, err = c.Update(key, 0, func(cur []byte) ([]byte, *uint32, bool, error) { return []byte(`{"v":3}`), nil, false, nil })
		case 4:
			op = "SetXattrs"
			casOut, err = c.SetXattrs(ctx, key, map[string][]byte{"_s": []byte(`{"t":"x1"}`)})
		case 5:
			op = "Add"
			_, err = c.Add(key, 0, []byte(`{"v":5}`))
		case 6:
			op = "WriteWithXattrs"
			casOut, err = c.WriteWithXattrs(ctx, key, 0, 0, []byte(`{"v":6}`), map[string][]byte{"_s": []byte(`{"t":"x1"}`)}, nil, nil)
		case 7:
			op = "Set+Remove"
			if err = c.Set(key, 0, nil, []byte(`{"v":7}`)); err == nil {
				if !inC1 {
					_ = hb.eventCas(key)
				}
				var cas uint64
				if _, cas, err = c.GetRaw(key); err == nil {
					casOut, err = c.Remove(key, cas)
				}
			}
		}
		return
	}
	for i, a := range acts {
		line := HLCLine{K: "line", Kind: a.Kind, Tr: trNo, I: i + 1, Mode: "hlc", B: a.B, V: a.V, Res: "ok", Vals: map[string][]int64{"m": {}, "d": {}}}
		switch a.Kind {
		case "clock":
			atomic.StoreUint64(&phys, uint64(a.V+1)<<16+uint64(i))
		case "now":
			hb := bs[a.B]
			if hb == nil {
				line.Kind = "skip"
				break
			}
			nwrite++
			inC1 := a.V == 1
			op, key, casOut, err := write(hb, nwrite, inC1)
			line.Op = op
			line.Res = classify(err)
			rc := hb.c
			if inC1 {
				if ds, derr := hb.b.NamedDataStore(dsName("c1")); derr == nil {
					rc = ds.(*rosmar.Collection)
				}
			}
			xs, cas, rerr := rc.GetXattrs(ctx, key, []string{"$document"})
			_ = xs
			if rerr == nil {
				line.ReadCas = int64(cas)
			}
			if inC1 {
				line.EvCas = line.ReadCas // the driver's feed listens to the default collection only
			} else {
				line.EvCas = int64(hb.eventCas(key))
			}
			if casOut != 0 {
				line.Cas = int64(casOut)
			} else {
				line.Cas = line.ReadCas
			}
			if uint64(line.Cas) > lastIssued[a.B] {
				lastIssued[a.B] = uint64(line.Cas)
			}
		case "drop":
			hb := bs[a.B]
			if hb == nil {
				line.Kind = "skip"
				break
			}
			if err := hb.b.DropDataStore(dsName("c1")); err != nil {
				line.Res = classify(err)
			}
		case "meta":
			// a write with a caller-chosen CAS into another collection of the bucket: just below (V=1) or above
			// the highest CAS the bucket has handed out
			hb := bs[a.B]
			if hb == nil || lastIssued[a.B] < 2 {
				line.Kind = "skip"
				break
			}
			ds, err := hb.b.NamedDataStore(dsName("c1"))
			if err != nil {
				line.Res = "error: " + err.Error()
				break
			}
			cas := lastIssued[a.B] - 1
			if a.V == 0 {
				cas = lastIssued[a.B] + 2
			}
			nmeta++
			err = ds.(*rosmar.Collection).SetWithMeta(ctx, fmt.Sprintf("meta%d", nmeta), 0, cas, 0, nil, []byte(`{"m":1}`), sgbucket.FeedDataTypeJSON)
			line.Res = classify(err)
			line.Cas = int64(cas)
		case "restart":
			for b, hb := range bs {
				if hb == nil {
					continue
				}
				close(hb.term)
				if b == "m" {
					_ = hb.b.CloseAndDelete(ctx)
				} else {
					hb.b.Close(ctx)
				}
				bs[b] = nil
			}
			rosmar.VerifResetGlobalHLC()
		case "open":
			if bs[a.B] != nil {
				line.Kind = "skip"
				break
			}
			mode := rosmar.OpenMode(rosmar.ReOpenExisting)
			if a.B == "m" {
				mode = rosmar.CreateNew
			}
			if err := open(a.B, mode); err != nil {
				line.Res = "error: " + err.Error()
			}
		}
		lines = append(lines, line)
	}
	// burst: concurrent writers on every open bucket, the clock standing still
	type rec struct {
		b   string
		cas uint64
	}
	var mu sync.Mutex
	var order []uint64
	rosmar.VerifSetHook(func(site string, args ...any) {
		if site == "cas.new" {
			mu.Lock()
			order = append(order, args[0].(uint64))
			mu.Unlock()
		}
	})
	var wg sync.WaitGroup
	var rmu sync.Mutex
	owner := map[uint64]string{}
	for b, hb := range bs {
		if hb == nil {
			continue
		}
		for g := 0; g < 6; g++ {
			wg.Add(1)
			go func(b string, hb *hlcBucket, g int) {
				defer wg.Done()
				for j := 0; j < 5; j++ {
					cas, err := hb.c.WriteCas(fmt.Sprintf("burst-%d-%d", g, j), 0, 0, []byte(`{"b":1}`), 0)
					if err == nil {
						rmu.Lock()
						owner[cas] = b
						rmu.Unlock()
					}
				}
			}(b, hb, g)
		}
	}
	wg.Wait()
	rosmar.VerifSetHook(nil)
	burst := HLCLine{K: "line", Kind: "burst", Tr: trNo, I: len(acts) + 1, Mode: "hlc", Res: "ok", Vals: map[string][]int64{"m": {}, "d": {}}}
	for _, cas := range order {
		if b, ok := owner[cas]; ok {
			burst.Vals[b] = append(burst.Vals[b], int64(cas))
		}
	}
	lines = append(lines, burst)
	return lines, nil
}

// cmdHLC: vh hlc -in scripts.json -out trace.ndjson -scratch DIR   (scripts run one after another: the clock is process-global)
func cmdHLC(args []string) error {
	fs := newFlagSet("hlc")
	in := fs.String("in", "", "scripts JSON")
	out := fs.String("out", "", "trace ndjson")
	scratch := fs.String("scratch", "", "scratch dir")
	from := fs.Int("from", 0, "first script")
	to := fs.Int("to", -1, "last script (exclusive)")
	if err := fs.Parse(args); err != nil {
		return err
	}
	data, err := os.ReadFile(*in)
	if err != nil {
		return err
	}
	var scripts [][]HLCAct
	if err := json.Unmarshal(data, &scripts); err != nil {
		return err
	}
	if *to < 0 || *to > len(scripts) {
		*to = len(scripts)
	}
	f, err := os.Create(*out)
	if err != nil {
		return err
	}
	defer f.Close()
	enc := json.NewEncoder(f)
	n, nerr := 0, 0
	for i := *from; i < *to; i++ {
		lines, err := runHLCScript(i+1, *scratch, scripts[i])
		if err != nil {
			nerr++
			fmt.Println("DRIVER-ERROR", err)
			continue
		}
		for _, l := range lines {
			enc.Encode(l)
			n++
		}
	}
	fmt.Printf("HLC scripts=%d lines=%d errors=%d\n", *to-*from, n, nerr)
	return nil
}
