package main

// Secondary observers of the sequential family: SQL queries over $_keyspace (C19) and views (C12).

import (
	"context"
	"encoding/hex"
	"encoding/json"
	"fmt"
	"strings"

	sgbucket "github.com/couchbase/sg-bucket"
	"github.com/couchbaselabs/rosmar"
)

// AuxRow is one abstracted row of a query or view result.
type AuxRow struct {
	ID   string          `json:"id"`
	Body Body            `json:"body"`
	Xa   map[string]XOut `json:"xa"`
	Vals []string        `json:"vals"`
}

type AuxObs struct {
	C    string   `json:"c"`
	Kind string   `json:"kind"`
	Err  string   `json:"err"`
	Rows []AuxRow `json:"rows"`
}

const viewMapFn = `function(doc, meta) {
  var x = meta.xattrs || {};
  var tag = meta.id.lastIndexOf('.') >= 0 ? meta.id.substring(meta.id.lastIndexOf('.')) : "";
  var v = (doc && typeof doc === 'object' && doc.v !== undefined) ? doc.v : null;
  var a = (doc && typeof doc === 'object' && doc.a !== undefined) ? doc.a : null;
  emit([tag, v, (x._s && x._s.t) ? x._s.t : null], [a, (x.u && x.u.t) ? x.u.t : null, (x._t && x._t.t) ? x._t.t : null]);
}`

func viewDDoc() *sgbucket.DesignDoc { return viewDDocVariant("A") }

// viewDDocVariant: variant "B" replaces the design document by one whose map function only emits documents that
// have v = "J1" or a _s xattr (C12: design-document replacement).
func viewDDocVariant(variant string) *sgbucket.DesignDoc {
	fn := viewMapFn
	if variant == "B" {
		fn = strings.Replace(viewMapFn, "  emit(", "  if (v === 'J1' || (x._s && x._s.t)) emit(", 1)
	}
	return &sgbucket.DesignDoc{Language: "javascript", Views: sgbucket.ViewMap{
		"v":   sgbucket.ViewDef{Map: fn},
		"cnt": sgbucket.ViewDef{Map: fn, Reduce: "_count"},
	}}
}

func str(v any) string {
	if v == nil {
		return "-"
	}
	return fmt.Sprint(v)
}

func (x *Ctx) emptyRow(id string) AuxRow {
	return AuxRow{ID: id, Body: NoBody(), Xa: x.absXattrs(nil), Vals: []string{}}
}

func (x *Ctx) viewRows(c *rosmar.Collection, ddoc, view string, params map[string]any, absKey func(string) string, suffix string) AuxObs {
	ao := AuxObs{Rows: []AuxRow{}}
	defer func() {
		if p := recover(); p != nil {
			ao.Err = fmt.Sprint("panic: ", p)
		}
	}()
	var res sgbucket.ViewResult
	var err error
	switch x.viewAPI {
	case "custom": // ViewCustom: the result unmarshalled into a caller-supplied structure
		err = c.ViewCustom(context.Background(), ddoc, view, params, &res)
	case "query": // ViewQuery: the result as a row iterator
		var it sgbucket.QueryResultIterator
		if it, err = c.ViewQuery(context.Background(), ddoc, view, params); err == nil {
			var row sgbucket.ViewRow
			for it.Next(context.Background(), &row) {
				r := row
				res.Rows = append(res.Rows, &r)
				row = sgbucket.ViewRow{}
			}
			err = it.Close()
		}
	default:
		res, err = c.View(context.Background(), ddoc, view, params)
	}
	if err != nil {
		ao.Err = err.Error()
		return ao
	}
	for _, r := range res.Rows {
		row := x.emptyRow(absKey(r.ID))
		if r.ID != "" && !strings.HasSuffix(r.ID, suffix) {
			row.ID = "?" + r.ID // a row of another path inside this path's key range
		}
		if k, ok := r.Key.([]any); ok && len(k) == 3 {
			row.Vals = append(row.Vals, str(k[1]), str(k[2]))
		} else {
			row.Vals = append(row.Vals, "?key", str(r.Key))
		}
		if v, ok := r.Value.([]any); ok && len(v) == 3 {
			row.Vals = append(row.Vals, str(v[0]), str(v[1]), str(v[2]))
		} else {
			row.Vals = append(row.Vals, str(r.Value))
		}
		ao.Rows = append(ao.Rows, row)
	}
	return ao
}

func (x *Ctx) queryRows(c *rosmar.Collection, stmt string, absKey func(string) string) AuxObs {
	ao := AuxObs{Rows: []AuxRow{}}
	defer func() {
		if p := recover(); p != nil {
			ao.Err = fmt.Sprint("panic: ", p)
		}
	}()
	it, err := c.Query(sgbucket.SQLiteLanguage, stmt, nil, sgbucket.RequestPlus, false)
	if err != nil {
		ao.Err = err.Error()
		return ao
	}
	return x.readQueryRows(it, stmt, absKey)
}

func (x *Ctx) readQueryRows(it sgbucket.QueryResultIterator, stmt string, absKey func(string) string) AuxObs {
	ao := AuxObs{Rows: []AuxRow{}}
	defer func() {
		if p := recover(); p != nil {
			ao.Err = fmt.Sprint("panic: ", p)
		}
	}()
	var row map[string]string
	for it.Next(context.Background(), &row) {
		r := x.emptyRow(absKey(row["id"]))
		if h, ok := row["body"]; ok {
			b, _ := hex.DecodeString(h)
			if len(b) == 0 {
				b = []byte{} // $_keyspace only lists documents that have a body
			}
			x.crc.note(b)
			r.Body = AbstractBody(b)
		}
		if v, ok := row["s"]; ok || strings.Contains(stmt, " AS s,") {
			if !ok {
				v = "-"
			}
			r.Vals = append(r.Vals, v)
		}
		if h, ok := row["xattrs"]; ok {
			xb, _ := hex.DecodeString(h)
			m := map[string][]byte{}
			if len(xb) > 0 {
				var rm map[string]json.RawMessage
				if json.Unmarshal(xb, &rm) == nil {
					for k, v := range rm {
						m[k] = v
					}
				}
			}
			r.Xa = x.absXattrs(m)
		}
		ao.Rows = append(ao.Rows, r)
		row = nil
	}
	if err := it.Close(); err != nil {
		ao.Err = err.Error()
	}
	return ao
}

// observeAux queries the target collection through SQL and through the views.
func (sr *seqRunner) observeAux(x *Ctx, coll string, suffix string) []AuxObs {
	c := sr.env.colls[coll]
	absKey := absKeyFn(suffix)
	var out []AuxObs
	add := func(kind string, ao AuxObs) {
		ao.C = coll
		ao.Kind = kind
		out = append(out, ao)
	}
	like := "'%" + suffix + "'"
	add("q-all", x.queryRows(c, `SELECT json_quote(id) AS id, json_quote(hex(body)) AS body, json_quote(hex(xattrs)) AS xattrs FROM $_keyspace WHERE id LIKE `+like+` AND id NOT LIKE '~%' ORDER BY id`, absKey))
	add("q-v", x.queryRows(c, `SELECT json_quote(id) AS id FROM $_keyspace WHERE id LIKE `+like+` AND id NOT LIKE '~%' AND json_valid(body) AND body->>'v' = 'J1' ORDER BY id`, absKey))
	// the same filter without the guard: a body that is not JSON makes SQLite refuse the row. The query may fail for it - loudly;
	// what it may not do is return some of the rows and no error (a refusal is logged as the guarded query's result)
	{
		ao := x.queryRows(c, `SELECT json_quote(id) AS id FROM $_keyspace WHERE id LIKE `+like+` AND id NOT LIKE '~%' AND body->>'v' = 'J1' ORDER BY id`, absKey)
		if ao.Err != "" {
			ao = x.queryRows(c, `SELECT json_quote(id) AS id FROM $_keyspace WHERE id LIKE `+like+` AND id NOT LIKE '~%' AND json_valid(body) AND body->>'v' = 'J1' ORDER BY id`, absKey)
		}
		add("q-vraw", ao)
	}
	add("q-s", x.queryRows(c, `SELECT json_quote(id) AS id FROM $_keyspace WHERE id LIKE `+like+` AND id NOT LIKE '~%' AND xattrs->>'$._s.t' = 'x1' ORDER BY id`, absKey))
	// the documents that have no xattrs at all (a document whose last xattr was removed is one of them)
	add("q-noxa", x.queryRows(c, `SELECT json_quote(id) AS id FROM $_keyspace WHERE id LIKE `+like+` AND id NOT LIKE '~%' AND xattrs IS NULL ORDER BY id`, absKey))
	// a query whose rows are read only after another query (on another collection) has been issued and read
	{
		other := sr.env.colls["c0"]
		if coll == "c0" {
			other = sr.env.colls["c2"]
		}
		ao := AuxObs{Rows: []AuxRow{}}
		stmt := `SELECT json_quote(id) AS id, json_quote(hex(body)) AS body, json_quote(hex(xattrs)) AS xattrs FROM $_keyspace WHERE id LIKE ` + like + ` AND id NOT LIKE '~%' ORDER BY id`
		it, err := c.Query(sgbucket.SQLiteLanguage, stmt, nil, sgbucket.RequestPlus, false)
		if err != nil {
			ao.Err = err.Error()
		} else {
			_ = x.queryRows(other, stmt, absKey) // issued and read while the first iterator is still unread
			ao = x.readQueryRows(it, stmt, absKey)
		}
		add("q-inter", ao)
	}
	// a projection whose first column is NULL for documents without that xattr
	add("q-null", x.queryRows(c, `SELECT xattrs->'$._s.t' AS s, json_quote(id) AS id FROM $_keyspace WHERE id LIKE `+like+` AND id NOT LIKE '~%' ORDER BY id`, absKey))
	// which variant of the design document GetDDoc / GetDDocs report
	{
		ao := AuxObs{Rows: []AuxRow{}}
		row := x.emptyRow("vd")
		variantOf := func(dd sgbucket.DesignDoc, err error) string {
			if err != nil {
				return "error:" + classify(err)
			}
			switch dd.Views["v"].Map {
			case viewDDocVariant("A").Views["v"].Map:
				return "A"
			case viewDDocVariant("B").Views["v"].Map:
				return "B"
			}
			return "?"
		}
		row.Vals = append(row.Vals, variantOf(c.GetDDoc("vd")))
		if all, err := c.GetDDocs(); err == nil {
			row.Vals = append(row.Vals, variantOf(all["vd"], nil), fmt.Sprint(len(all)))
		} else {
			row.Vals = append(row.Vals, "error:"+classify(err), "0")
		}
		ao.Rows = append(ao.Rows, row)
		add("ddoc", ao)
	}
	lo := []any{suffix}
	hi := []any{suffix, map[string]any{}}
	add("view", x.viewRows(c, "vd", "v", map[string]any{"startkey": lo, "endkey": hi}, absKey, suffix))
	add("viewdesc", x.viewRows(c, "vd", "v", map[string]any{"startkey": hi, "endkey": lo, "descending": true}, absKey, suffix))
	add("viewlimit", x.viewRows(c, "vd", "v", map[string]any{"startkey": lo, "endkey": hi, "limit": 1}, absKey, suffix))
	add("viewkey", x.viewRows(c, "vd", "v", map[string]any{"key": []any{suffix, "J1", nil}}, absKey, suffix))
	// ranges that begin or end exactly on an emitted key, inclusive and exclusive, in both directions
	piv := []any{suffix, "J1", nil}
	add("viewxend", x.viewRows(c, "vd", "v", map[string]any{"startkey": lo, "endkey": piv, "inclusive_end": false}, absKey, suffix))
	add("viewiend", x.viewRows(c, "vd", "v", map[string]any{"startkey": lo, "endkey": piv, "inclusive_end": true}, absKey, suffix))
	add("viewfrom", x.viewRows(c, "vd", "v", map[string]any{"startkey": piv, "endkey": hi}, absKey, suffix))
	add("viewxenddesc", x.viewRows(c, "vd", "v", map[string]any{"startkey": hi, "endkey": piv, "descending": true, "inclusive_end": false}, absKey, suffix))
	add("viewfromdesc", x.viewRows(c, "vd", "v", map[string]any{"startkey": piv, "endkey": lo, "descending": true}, absKey, suffix))
	add("viewcount", x.viewRows(c, "vd", "cnt", map[string]any{"startkey": lo, "endkey": hi, "reduce": true}, absKey, suffix))
	return out
}

// observePost queries, after the feeds have been flushed (the flush markers are writes to every collection, the
// last of them to another collection than most operations address): a view that is queried after every step, one
// that is queried only every third step (its index catches up over several writes at once), and at the end of the
// path a freshly built one.
func (sr *seqRunner) observePost(x *Ctx, coll string, suffix string, fresh, late bool) []AuxObs {
	c := sr.env.colls[coll]
	absKey := absKeyFn(suffix)
	var out []AuxObs
	add := func(kind string, ao AuxObs) {
		ao.C = coll
		ao.Kind = kind
		out = append(out, ao)
	}
	lo := []any{suffix}
	hi := []any{suffix, map[string]any{}}
	add("viewpost", x.viewRows(c, "pd", "v", map[string]any{"startkey": lo, "endkey": hi}, absKey, suffix))
	if late {
		// the same query through the other two view entry points
		x.viewAPI = "custom"
		add("viewcustom", x.viewRows(c, "pd", "v", map[string]any{"startkey": lo, "endkey": hi}, absKey, suffix))
		x.viewAPI = "query"
		add("viewquery", x.viewRows(c, "pd", "v", map[string]any{"startkey": lo, "endkey": hi}, absKey, suffix))
		x.viewAPI = ""
	}
	if late {
		add("viewlate", x.viewRows(c, "ld", "v", map[string]any{"startkey": lo, "endkey": hi}, absKey, suffix))
	}
	if fresh {
		name := "fresh" + strings.TrimPrefix(suffix, ".")
		if err := c.PutDDoc(context.Background(), name, viewDDoc()); err == nil {
			add("viewfresh", x.viewRows(c, name, "v", map[string]any{"startkey": lo, "endkey": hi}, absKey, suffix))
			_ = c.DeleteDDoc(name)
		}
	}
	return out
}
