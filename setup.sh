#!/bin/bash
# Builds the Go harness (and warms the Go build cache) from files on disk only.
set -e
cd "$(dirname "$0")"
export GOFLAGS=-mod=mod GOPROXY=off GOSUMDB=off GOTOOLCHAIN=local
cp -f /repo/go.sum harness/go.sum
mkdir -p .cache/bin
(cd harness && go build -tags verif -o ../.cache/bin/vh .)
echo "setup ok"
